//! qxfacts — fact extractor for the static checks in /verif.
//!
//! Used as RUSTC_WORKSPACE_WRAPPER under `cargo +nightly check`. For the crate named
//! by QXFACTS_CRATE (default `quick_xml`) it writes one JSON document to QXFACTS_OUT
//! with items (ADTs, consts, fns, impls) and the built MIR of every body
//! (`mir_built`: the MIR straight after construction from THIR, before borrowck,
//! promotion, drop elaboration and coroutine lowering, so async bodies are still
//! ordinary control-flow graphs with `Yield` terminators).
#![feature(rustc_private)]
#![allow(rustc::internal)]

extern crate rustc_abi;
extern crate rustc_data_structures;
extern crate rustc_driver;
extern crate rustc_hir;
extern crate rustc_interface;
extern crate rustc_lint;
extern crate rustc_middle;
extern crate rustc_session;
extern crate rustc_span;

use std::collections::HashMap;
use std::fmt::Write as _;

use rustc_driver::{Callbacks, Compilation};
use rustc_hir::def::DefKind;
use rustc_hir::def_id::{DefId, LocalDefId};
use rustc_middle::mir::*;
use rustc_middle::ty::{self, Instance, Ty, TyCtxt, TypingEnv};
use rustc_span::{ExpnKind, Span};

mod json;
use json::J;

struct Cb;

impl Callbacks for Cb {
    fn after_expansion<'tcx>(
        &mut self,
        _compiler: &rustc_interface::interface::Compiler,
        tcx: TyCtxt<'tcx>,
    ) -> Compilation {
        let want = std::env::var("QXFACTS_CRATE").unwrap_or_else(|_| "quick_xml".to_string());
        let name = tcx.crate_name(rustc_hir::def_id::LOCAL_CRATE).to_string();
        if name == want {
            if let Ok(out) = std::env::var("QXFACTS_OUT") {
                // Only the library target (cargo may also compile tests/examples of the
                // same crate name when asked to; `--lib` keeps it to one).
                let doc = Dumper::new(tcx).dump();
                let mut s = String::with_capacity(64 << 20);
                doc.write(&mut s);
                std::fs::write(&out, s).expect("qxfacts: cannot write fact file");
            }
        }
        Compilation::Continue
    }
}

fn main() {
    let mut args: Vec<String> = std::env::args().collect();
    // RUSTC_WORKSPACE_WRAPPER: argv = [wrapper, rustc, args...]
    if args.len() > 1 && (args[1].ends_with("rustc") || args[1].contains("/rustc")) {
        args.remove(1);
    }
    rustc_driver::run_compiler(&args, &mut Cb);
}

struct Dumper<'tcx> {
    tcx: TyCtxt<'tcx>,
    spans: Vec<J>,
    span_ix: HashMap<(String, Vec<String>), usize>,
}

impl<'tcx> Dumper<'tcx> {
    fn new(tcx: TyCtxt<'tcx>) -> Self {
        Dumper { tcx, spans: Vec::new(), span_ix: HashMap::new() }
    }

    fn path(&self, did: DefId) -> String {
        ty::print::with_no_trimmed_paths!(ty::print::with_resolve_crate_name!(
            self.tcx.def_path_str(did)
        ))
    }

    fn tys(&self, t: Ty<'tcx>) -> String {
        ty::print::with_no_trimmed_paths!(ty::print::with_resolve_crate_name!(format!("{}", t)))
    }

    fn span(&mut self, sp: Span) -> J {
        let sm = self.tcx.sess.source_map();
        // location of the outermost call site (where the user wrote it)
        let root = sp.source_callsite();
        let loc = |s: Span| {
            let lo = sm.lookup_char_pos(s.lo());
            let f = match &lo.file.name {
                rustc_span::FileName::Real(r) => r
                    .local_path()
                    .map(|p| p.display().to_string())
                    .unwrap_or_else(|| format!("{:?}", r)),
                o => format!("{:?}", o),
            };
            format!("{}:{}:{}", f, lo.line, lo.col.0 + 1)
        };
        let here = loc(sp);
        let mut bt: Vec<String> = Vec::new();
        for e in sp.macro_backtrace() {
            match e.kind {
                ExpnKind::Macro(k, name) => bt.push(format!("{:?}:{}", k, name)),
                ExpnKind::Desugaring(d) => bt.push(format!("Desugar:{:?}", d)),
                ExpnKind::AstPass(p) => bt.push(format!("AstPass:{:?}", p)),
                ExpnKind::Root => {}
            }
        }
        let key = (format!("{}|{}", here, loc(root)), bt.clone());
        if let Some(&i) = self.span_ix.get(&key) {
            return J::Int(i as i128);
        }
        let i = self.spans.len();
        self.spans.push(J::obj(vec![
            ("at", J::Str(here)),
            ("root", J::Str(loc(root))),
            ("bt", J::Arr(bt.into_iter().map(J::Str).collect())),
        ]));
        self.span_ix.insert(key, i);
        J::Int(i as i128)
    }

    fn dump(mut self) -> J {
        let tcx = self.tcx;
        let mut adts = Vec::new();
        let mut consts = Vec::new();
        let mut fns = Vec::new();
        let mut impls = Vec::new();
        let mut macros = Vec::new();

        let krate_items = tcx.hir_crate_items(());
        for id in krate_items.definitions() {
            let did = id.to_def_id();
            let kind = tcx.def_kind(did);
            match kind {
                DefKind::Struct | DefKind::Enum | DefKind::Union => {
                    let adt = tcx.adt_def(did);
                    let mut vars = Vec::new();
                    for (vi, v) in adt.variants().iter_enumerated() {
                        let discr = if adt.is_enum() {
                            format!("{}", adt.discriminant_for_variant(tcx, vi).val)
                        } else {
                            "0".into()
                        };
                        let mut fields = Vec::new();
                        for f in v.fields.iter() {
                            let fty = tcx.type_of(f.did).instantiate_identity().skip_norm_wip();
                            fields.push(J::obj(vec![
                                ("name", J::Str(f.name.to_string())),
                                ("ty", J::Str(self.tys(fty))),
                                ("vis", J::Str(format!("{:?}", f.vis))),
                            ]));
                        }
                        vars.push(J::obj(vec![
                            ("name", J::Str(v.name.to_string())),
                            ("discr", J::Str(discr)),
                            ("fields", J::Arr(fields)),
                        ]));
                    }
                    adts.push(J::obj(vec![
                        ("path", J::Str(self.path(did))),
                        ("kind", J::Str(format!("{:?}", kind))),
                        ("vis", J::Str(format!("{:?}", tcx.visibility(did)))),
                        ("span", self.span(tcx.def_span(did))),
                        ("variants", J::Arr(vars)),
                    ]));
                }
                DefKind::Const { .. } | DefKind::AssocConst { .. } | DefKind::Static { .. } => {
                    let t = tcx.type_of(did).instantiate_identity().skip_norm_wip();
                    consts.push(J::obj(vec![
                        ("path", J::Str(self.path(did))),
                        ("ty", J::Str(self.tys(t))),
                        ("span", self.span(tcx.def_span(did))),
                    ]));
                }
                DefKind::Fn | DefKind::AssocFn => {
                    let mut o = vec![
                        ("path", J::Str(self.path(did))),
                        ("kind", J::Str(format!("{:?}", kind))),
                        ("vis", J::Str(format!("{:?}", tcx.visibility(did)))),
                        ("span", self.span(tcx.def_span(did))),
                        ("async", J::Bool(tcx.asyncness(did).is_async())),
                        (
                            "must_use",
                            J::Bool(
                                rustc_hir::find_attr!(tcx, did, MustUse { .. }),
                            ),
                        ),
                    ];
                    if let Some(p) = tcx.opt_parent(did) {
                        if matches!(tcx.def_kind(p), DefKind::Impl { .. }) {
                            o.push(("impl", J::Str(self.path(p))));
                            let st = tcx.type_of(p).instantiate_identity().skip_norm_wip();
                            o.push(("self_ty", J::Str(self.tys(st))));
                            if let Some(tr) = tcx.impl_opt_trait_ref(p) {
                                let tr = tr.instantiate_identity().skip_norm_wip();
                                o.push(("trait", J::Str(self.path(tr.def_id))));
                            }
                        } else if matches!(tcx.def_kind(p), DefKind::Trait) {
                            o.push(("in_trait", J::Str(self.path(p))));
                        }
                    }
                    let sig = tcx.fn_sig(did).instantiate_identity().skip_norm_wip();
                    o.push(("sig", J::Str(ty::print::with_no_trimmed_paths!(format!("{}", sig)))));
                    fns.push(J::obj(o));
                }
                DefKind::Impl { .. } => {
                    let st = tcx.type_of(did).instantiate_identity().skip_norm_wip();
                    let mut o = vec![
                        ("path", J::Str(self.path(did))),
                        ("self_ty", J::Str(self.tys(st))),
                        ("span", self.span(tcx.def_span(did))),
                    ];
                    if let Some(tr) = tcx.impl_opt_trait_ref(did) {
                        let tr = tr.instantiate_identity().skip_norm_wip();
                        o.push(("trait", J::Str(self.path(tr.def_id))));
                        o.push((
                            "trait_ref",
                            J::Str(ty::print::with_no_trimmed_paths!(format!("{}", tr))),
                        ));
                    }
                    impls.push(J::obj(o));
                }
                DefKind::Macro(_) => {
                    macros.push(J::obj(vec![
                        ("path", J::Str(self.path(did))),
                        ("span", self.span(tcx.def_span(did))),
                    ]));
                }
                _ => {}
            }
        }

        // bodies
        let mut bodies = Vec::new();
        let keys: Vec<LocalDefId> = tcx.mir_keys(()).iter().copied().collect();
        for ldid in keys {
            let did = ldid.to_def_id();
            let kind = tcx.def_kind(did);
            if matches!(kind, DefKind::Ctor(..)) {
                continue; // constructor shims have no user-written body
            }
            let steal = tcx.mir_built(ldid);
            if steal.is_stolen() {
                // The built MIR was already consumed (borrowck of this body was demanded
                // while type-checking another one, e.g. to reveal an `async fn` future).
                // The promoted form is the same CFG with promotable constants moved out.
                let (pb, proms) = tcx.mir_promoted(ldid);
                if !pb.is_stolen() && !proms.is_stolen() {
                    let pb = pb.borrow();
                    let proms = proms.borrow();
                    let mut b = self.body(ldid, &pb, "promoted");
                    let mut pj = Vec::new();
                    for pbody in proms.iter() {
                        pj.push(self.body(ldid, pbody, "promoted-const"));
                    }
                    if let J::Obj(o) = &mut b {
                        o.push(("promoted", J::Arr(pj)));
                    }
                    bodies.push(b);
                    continue;
                }
                let body: &Body<'tcx> = match kind {
                    DefKind::Const { .. }
                    | DefKind::AssocConst { .. }
                    | DefKind::Static { .. }
                    | DefKind::AnonConst
                    | DefKind::InlineConst => tcx.mir_for_ctfe(did),
                    _ => tcx.optimized_mir(did),
                };
                let b = self.body(ldid, body, "late");
                bodies.push(b);
                continue;
            }
            let body = steal.borrow();
            let b = self.body(ldid, &body, "built");
            bodies.push(b);
        }

        // crate-level lint level of unsafe_code
        let store = rustc_lint::unerased_lint_store(tcx.sess);
        let lint = store.find_lints("unsafe_code").expect("unsafe_code lint")[0].lint;
        let lvl = tcx.lint_level_at_node(lint, rustc_hir::CRATE_HIR_ID);
        let mut feats: Vec<String> = tcx
            .sess
            .config
            .iter()
            .filter(|(k, _)| k.as_str() == "feature")
            .filter_map(|(_, v)| v.map(|s| s.to_string()))
            .collect();
        feats.sort();
        let features: Vec<J> = feats.into_iter().map(J::Str).collect();

        J::obj(vec![
            ("crate", J::Str(tcx.crate_name(rustc_hir::def_id::LOCAL_CRATE).to_string())),
            ("features", J::Arr(features)),
            ("unsafe_code_level", J::Str(format!("{:?}", lvl.level))),
            ("adts", J::Arr(adts)),
            ("consts", J::Arr(consts)),
            ("fns", J::Arr(fns)),
            ("impls", J::Arr(impls)),
            ("macros", J::Arr(macros)),
            ("bodies", J::Arr(bodies)),
            ("spans", J::Arr(std::mem::take(&mut self.spans))),
        ])
    }

    fn place(&mut self, body: &Body<'tcx>, p: &Place<'tcx>) -> J {
        let tcx = self.tcx;
        let mut proj = Vec::new();
        let mut pty = PlaceTy::from_ty(body.local_decls[p.local].ty);
        for elem in p.projection.iter() {
            let j = match elem {
                ProjectionElem::Deref => J::Str("*".into()),
                ProjectionElem::Field(f, _) => {
                    // field name and owning ADT, if the base is an ADT
                    let mut of = None;
                    let name = match pty.ty.kind() {
                        ty::Adt(adt, _) => {
                            of = Some(self.path(adt.did()));
                            let v = pty.variant_index.unwrap_or(rustc_abi::FIRST_VARIANT);
                            adt.variants()
                                .get(v)
                                .and_then(|vd| vd.fields.get(f))
                                .map(|fd| fd.name.to_string())
                                .unwrap_or_else(|| f.index().to_string())
                        }
                        _ => f.index().to_string(),
                    };
                    let mut o = vec![("f", J::Int(f.index() as i128)), ("n", J::Str(name))];
                    if let Some(of) = of {
                        o.push(("of", J::Str(of)));
                    }
                    J::obj(o)
                }
                ProjectionElem::Downcast(name, vi) => J::obj(vec![
                    ("d", J::Int(vi.index() as i128)),
                    ("n", J::Str(name.map(|s| s.to_string()).unwrap_or_default())),
                ]),
                ProjectionElem::Index(l) => J::obj(vec![("ix", J::Int(l.index() as i128))]),
                ProjectionElem::ConstantIndex { offset, min_length, from_end } => J::obj(vec![
                    ("ci", J::Int(offset as i128)),
                    ("min", J::Int(min_length as i128)),
                    ("from_end", J::Bool(from_end)),
                ]),
                ProjectionElem::Subslice { from, to, from_end } => J::obj(vec![
                    ("sub", J::Arr(vec![J::Int(from as i128), J::Int(to as i128)])),
                    ("from_end", J::Bool(from_end)),
                ]),
                ProjectionElem::OpaqueCast(_) => J::Str("opaque".into()),
                ProjectionElem::UnwrapUnsafeBinder(_) => J::Str("unbind".into()),
            };
            proj.push(j);
            pty = pty.projection_ty(tcx, elem);
        }
        J::Arr(vec![J::Int(p.local.index() as i128), J::Arr(proj)])
    }

    fn operand(&mut self, owner: LocalDefId, body: &Body<'tcx>, o: &Operand<'tcx>) -> J {
        match o {
            Operand::Copy(p) => J::obj(vec![("c", self.place(body, p))]),
            Operand::Move(p) => J::obj(vec![("m", self.place(body, p))]),
            Operand::Constant(c) => self.constant(owner, c),
            #[allow(unreachable_patterns)]
            _ => J::obj(vec![("other", J::Str(format!("{:?}", o)))]),
        }
    }

    fn constant(&mut self, owner: LocalDefId, c: &ConstOperand<'tcx>) -> J {
        let tcx = self.tcx;
        let t = c.const_.ty();
        let mut o = vec![("ty", J::Str(self.tys(t)))];
        match t.kind() {
            ty::FnDef(did, args) => {
                o.push(("fn", J::Str(self.path(*did))));
                o.push((
                    "fnargs",
                    J::Str(ty::print::with_no_trimmed_paths!(format!("{:?}", args))),
                ));
                // resolve through traits where possible
                let env = TypingEnv::post_analysis(tcx, owner.to_def_id());
                if let Ok(Some(inst)) = Instance::try_resolve(tcx, env, *did, args) {
                    let rd = inst.def_id();
                    if rd != *did {
                        o.push(("rfn", J::Str(self.path(rd))));
                    }
                }
            }
            ty::Closure(did, _) | ty::Coroutine(did, _) | ty::CoroutineClosure(did, _) => {
                o.push(("closure", J::Str(self.path(*did))));
            }
            _ => {}
        }
        match c.const_ {
            Const::Unevaluated(u, _) => {
                o.push(("uneval", J::Str(self.path(u.def))));
                if let Some(p) = u.promoted {
                    o.push(("promoted", J::Int(p.index() as i128)));
                }
            }
            _ => {}
        }
        // a pointer to a `static` item: name the static
        if let Const::Val(rustc_middle::mir::ConstValue::Scalar(rustc_middle::mir::interpret::Scalar::Ptr(ptr, _)), _) = c.const_ {
            let aid = ptr.provenance.alloc_id();
            if let Some(rustc_middle::mir::interpret::GlobalAlloc::Static(sd)) = tcx.try_get_global_alloc(aid) {
                o.push(("static", J::Str(self.path(sd))));
            }
        }
        let disp = ty::print::with_no_trimmed_paths!(format!("{}", c.const_));
        o.push(("v", J::Str(disp)));
        // evaluated value of named constants (cheap: literals and simple consts)
        if let Const::Unevaluated(u, _) = c.const_ {
            if u.promoted.is_none() && u.args.is_empty() {
                if let Ok(val) = tcx.const_eval_poly(u.def) {
                    let cv = Const::Val(val, t);
                    o.push((
                        "ev",
                        J::Str(ty::print::with_no_trimmed_paths!(format!("{}", cv))),
                    ));
                }
            }
        }
        J::obj(vec![("k", J::obj(o))])
    }

    fn rvalue(&mut self, owner: LocalDefId, body: &Body<'tcx>, r: &Rvalue<'tcx>) -> J {
        match r {
            Rvalue::Use(o, ..) => J::obj(vec![("k", J::Str("use".into())), ("o", self.operand(owner, body, o))]),
            Rvalue::Repeat(o, n) => J::obj(vec![
                ("k", J::Str("repeat".into())),
                ("o", self.operand(owner, body, o)),
                ("n", J::Str(format!("{}", n))),
            ]),
            Rvalue::Ref(_, bk, p) => J::obj(vec![
                ("k", J::Str("ref".into())),
                ("mut", J::Bool(matches!(bk, BorrowKind::Mut { .. }))),
                ("fake", J::Bool(matches!(bk, BorrowKind::Fake(_)))),
                ("p", self.place(body, p)),
            ]),
            Rvalue::RawPtr(_, p) => J::obj(vec![("k", J::Str("rawptr".into())), ("p", self.place(body, p))]),
            Rvalue::Cast(ck, o, t) => J::obj(vec![
                ("k", J::Str("cast".into())),
                ("ck", J::Str(format!("{:?}", ck))),
                ("o", self.operand(owner, body, o)),
                ("ty", J::Str(self.tys(*t))),
            ]),
            Rvalue::BinaryOp(op, ab) => J::obj(vec![
                ("k", J::Str("bin".into())),
                ("op", J::Str(format!("{:?}", op))),
                ("a", self.operand(owner, body, &ab.0)),
                ("b", self.operand(owner, body, &ab.1)),
            ]),
            Rvalue::UnaryOp(op, a) => J::obj(vec![
                ("k", J::Str("un".into())),
                ("op", J::Str(format!("{:?}", op))),
                ("a", self.operand(owner, body, a)),
            ]),
            Rvalue::Discriminant(p) => {
                let pt = p.ty(&body.local_decls, self.tcx).ty;
                let nv = match pt.kind() {
                    ty::Adt(adt, _) if adt.is_enum() => adt.variants().len() as i128,
                    _ => -1,
                };
                J::obj(vec![
                    ("k", J::Str("discr".into())),
                    ("p", self.place(body, p)),
                    ("nv", J::Int(nv)),
                    ("ety", J::Str(self.tys(pt))),
                ])
            }
            Rvalue::Aggregate(ak, ops) => {
                let mut o = vec![("k", J::Str("agg".into()))];
                match &**ak {
                    AggregateKind::Adt(did, vi, _, _, _) => {
                        let adt = self.tcx.adt_def(*did);
                        let v = adt.variant(*vi);
                        o.push(("adt", J::Str(self.path(*did))));
                        o.push(("variant", J::Str(v.name.to_string())));
                        o.push(("vi", J::Int(vi.index() as i128)));
                        o.push((
                            "fields",
                            J::Arr(v.fields.iter().map(|f| J::Str(f.name.to_string())).collect()),
                        ));
                    }
                    AggregateKind::Tuple => o.push(("tuple", J::Bool(true))),
                    AggregateKind::Array(_) => o.push(("array", J::Bool(true))),
                    AggregateKind::Closure(did, _)
                    | AggregateKind::Coroutine(did, _)
                    | AggregateKind::CoroutineClosure(did, _) => {
                        o.push(("closure", J::Str(self.path(*did))))
                    }
                    AggregateKind::RawPtr(..) => o.push(("rawptr", J::Bool(true))),
                }
                let ops: Vec<J> = ops.iter().map(|x| self.operand(owner, body, x)).collect();
                o.push(("ops", J::Arr(ops)));
                J::obj(o)
            }
            Rvalue::CopyForDeref(p) => J::obj(vec![("k", J::Str("use".into())), ("o", J::obj(vec![("c", self.place(body, p))]))]),
            other => J::obj(vec![("k", J::Str("other".into())), ("s", J::Str(format!("{:?}", other)))]),
        }
    }

    fn body(&mut self, ldid: LocalDefId, body: &Body<'tcx>, stage: &str) -> J {
        let tcx = self.tcx;
        let did = ldid.to_def_id();
        let mut locals = Vec::new();
        for (_l, d) in body.local_decls.iter_enumerated() {
            locals.push(J::Str(self.tys(d.ty)));
        }
        let mut dbg = Vec::new();
        for v in &body.var_debug_info {
            if let VarDebugInfoContents::Place(p) = &v.value {
                dbg.push(J::Arr(vec![J::Str(v.name.to_string()), self.place(body, p)]));
            }
        }
        let mut blocks = Vec::new();
        for (_bb, data) in body.basic_blocks.iter_enumerated() {
            let mut stmts = Vec::new();
            for st in &data.statements {
                match &st.kind {
                    StatementKind::Assign(b) => {
                        let (p, r) = &**b;
                        let sp = self.span(st.source_info.span);
                        stmts.push(J::obj(vec![
                            ("p", self.place(body, p)),
                            ("r", self.rvalue(ldid, body, r)),
                            ("s", sp),
                        ]));
                    }
                    StatementKind::SetDiscriminant { place, variant_index } => {
                        let sp = self.span(st.source_info.span);
                        stmts.push(J::obj(vec![
                            ("setdiscr", self.place(body, place)),
                            ("vi", J::Int(variant_index.index() as i128)),
                            ("s", sp),
                        ]));
                    }
                    _ => {}
                }
            }
            let term = data.terminator();
            let sp = self.span(term.source_info.span);
            let mut t: Vec<(&str, J)> = Vec::new();
            match &term.kind {
                TerminatorKind::Goto { target } => {
                    t.push(("k", J::Str("goto".into())));
                    t.push(("t", J::Int(target.index() as i128)));
                }
                TerminatorKind::FalseEdge { real_target, .. } => {
                    t.push(("k", J::Str("goto".into())));
                    t.push(("t", J::Int(real_target.index() as i128)));
                }
                TerminatorKind::FalseUnwind { real_target, .. } => {
                    t.push(("k", J::Str("goto".into())));
                    t.push(("t", J::Int(real_target.index() as i128)));
                }
                TerminatorKind::SwitchInt { discr, targets } => {
                    t.push(("k", J::Str("switch".into())));
                    t.push(("o", self.operand(ldid, body, discr)));
                    t.push(("ty", J::Str(self.tys(discr.ty(&body.local_decls, tcx)))));
                    let mut vals = Vec::new();
                    for (v, bb) in targets.iter() {
                        vals.push(J::Arr(vec![J::Int(v as i128), J::Int(bb.index() as i128)]));
                    }
                    t.push(("vals", J::Arr(vals)));
                    t.push(("else", J::Int(targets.otherwise().index() as i128)));
                }
                TerminatorKind::Return => t.push(("k", J::Str("return".into()))),
                TerminatorKind::Unreachable => t.push(("k", J::Str("unreachable".into()))),
                TerminatorKind::UnwindResume => t.push(("k", J::Str("resume".into()))),
                TerminatorKind::UnwindTerminate(_) => t.push(("k", J::Str("abort".into()))),
                TerminatorKind::CoroutineDrop => t.push(("k", J::Str("codrop".into()))),
                TerminatorKind::Drop { place, target, .. } => {
                    t.push(("k", J::Str("drop".into())));
                    t.push(("p", self.place(body, place)));
                    t.push(("t", J::Int(target.index() as i128)));
                }
                TerminatorKind::Call { func, args, destination, target, .. } => {
                    t.push(("k", J::Str("call".into())));
                    t.push(("f", self.operand(ldid, body, func)));
                    let a: Vec<J> = args.iter().map(|x| self.operand(ldid, body, &x.node)).collect();
                    t.push(("args", J::Arr(a)));
                    t.push(("dest", self.place(body, destination)));
                    match target {
                        Some(bb) => t.push(("t", J::Int(bb.index() as i128))),
                        None => t.push(("t", J::Null)),
                    }
                }
                TerminatorKind::TailCall { func, args, .. } => {
                    t.push(("k", J::Str("tailcall".into())));
                    t.push(("f", self.operand(ldid, body, func)));
                    let a: Vec<J> = args.iter().map(|x| self.operand(ldid, body, &x.node)).collect();
                    t.push(("args", J::Arr(a)));
                }
                TerminatorKind::Assert { cond, expected, msg, target, .. } => {
                    t.push(("k", J::Str("assert".into())));
                    t.push(("cond", self.operand(ldid, body, cond)));
                    t.push(("expected", J::Bool(*expected)));
                    let kind = match &**msg {
                        AssertKind::BoundsCheck { .. } => "BoundsCheck".to_string(),
                        AssertKind::Overflow(op, ..) => format!("Overflow:{:?}", op),
                        AssertKind::OverflowNeg(_) => "OverflowNeg".into(),
                        AssertKind::DivisionByZero(_) => "DivisionByZero".into(),
                        AssertKind::RemainderByZero(_) => "RemainderByZero".into(),
                        other => {
                            let mut s = String::new();
                            let _ = write!(s, "{:?}", other);
                            s.split(|c: char| !c.is_alphanumeric()).next().unwrap_or("").to_string()
                        }
                    };
                    t.push(("msg", J::Str(kind)));
                    match &**msg {
                        AssertKind::BoundsCheck { len, index } => {
                            t.push(("len", self.operand(ldid, body, len)));
                            t.push(("index", self.operand(ldid, body, index)));
                        }
                        AssertKind::Overflow(_, a, b) => {
                            t.push(("a", self.operand(ldid, body, a)));
                            t.push(("b", self.operand(ldid, body, b)));
                        }
                        _ => {}
                    }
                    t.push(("t", J::Int(target.index() as i128)));
                }
                TerminatorKind::Yield { value, resume, resume_arg, .. } => {
                    t.push(("k", J::Str("yield".into())));
                    t.push(("o", self.operand(ldid, body, value)));
                    t.push(("t", J::Int(resume.index() as i128)));
                    t.push(("dest", self.place(body, resume_arg)));
                }
                TerminatorKind::InlineAsm { .. } => t.push(("k", J::Str("asm".into()))),
            }
            t.push(("s", sp));
            blocks.push(J::obj(vec![
                ("cleanup", J::Bool(data.is_cleanup)),
                ("stmts", J::Arr(stmts)),
                ("term", J::obj(t)),
            ]));
        }
        let kind = tcx.def_kind(did);
        let mut o = vec![
            ("path", J::Str(self.path(did))),
            ("kind", J::Str(format!("{:?}", kind))),
            ("stage", J::Str(stage.into())),
            ("span", self.span(body.span)),
            ("argc", J::Int(body.arg_count as i128)),
            ("locals", J::Arr(locals)),
            ("dbg", J::Arr(dbg)),
            ("blocks", J::Arr(blocks)),
        ];
        if matches!(kind, DefKind::Closure) {
            let p = tcx.typeck_root_def_id(did);
            o.push(("root", J::Str(self.path(p))));
            if let Some(par) = tcx.opt_parent(did) {
                o.push(("parent", J::Str(self.path(par))));
            }
            o.push(("coroutine", J::Bool(tcx.is_coroutine(did))));
        }
        J::obj(o)
    }
}
