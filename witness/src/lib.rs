//! Compile-fail witnesses (E4): what the type system forbids an external user of quick-xml to do.
//! Every witness is paired with a compiling twin that differs only in the offending line, so a
//! witness whose path is merely wrong cannot pass.  Run with `cargo +nightly test --doc --offline`
//! (error codes are only checked on nightly).  Twins are `no_run`: nothing of quick-xml is executed.

/// W1 (C05): `NsReader` gives shared access to the inner `Reader` only — no `DerefMut`.
/// The namespace scope stack therefore cannot be bypassed by reading events through the inner reader.
///
/// twin (compiles):
/// ```no_run
/// use std::ops::Deref;
/// let ns = quick_xml::NsReader::from_str("<a/>");
/// let _r: &quick_xml::Reader<&[u8]> = Deref::deref(&ns);
/// ```
/// witness:
/// ```compile_fail,E0277
/// use std::ops::DerefMut;
/// let mut ns = quick_xml::NsReader::from_str("<a/>");
/// let _r: &mut quick_xml::Reader<&[u8]> = DerefMut::deref_mut(&mut ns);
/// ```
pub struct W1NoDerefMut;

/// W1b (C05): the inner reader field is private.
///
/// ```compile_fail,E0616
/// let mut ns = quick_xml::NsReader::from_str("<a/>");
/// let _ = ns.reader.read_event();
/// ```
/// twin (compiles):
/// ```no_run
/// let mut ns = quick_xml::NsReader::from_str("<a/>");
/// let _ = ns.read_event();
/// ```
pub struct W1bPrivateReader;

/// W2 (C07, C20): through `Deserializer::get_ref()` only `&NsReader` is reachable, so the reader
/// configuration (`check_end_names`, `allow_unmatched_ends`) cannot be changed from outside; the
/// "reader guarantees matched tags" justification of the `unreachable!()` sites rests on it.
///
/// twin (compiles):
/// ```no_run
/// let de = quick_xml::de::Deserializer::from_str("<a/>");
/// let _ = de.get_ref().get_ref().config().check_end_names;
/// ```
/// witness:
/// ```compile_fail,E0596
/// let de = quick_xml::de::Deserializer::from_str("<a/>");
/// de.get_ref().get_ref().config_mut().check_end_names = false;
/// ```
pub struct W2ConfigImmutable;

/// W3 (C13): the serializer's validated name type is not nameable outside the crate.
///
/// ```compile_fail,E0603
/// let _ = quick_xml::se::XmlName::try_from("a");
/// ```
/// twin (compiles): the public serializer API that uses it
/// ```no_run
/// let _ = quick_xml::se::to_string_with_root("a", &5u32).unwrap();
/// ```
pub struct W3XmlNamePrivate;
