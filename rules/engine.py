"""Rule-side helpers shared by the property modules: obligations, term matchers,
value sets of byte predicates, literal sequences, who-calls queries."""
import re

import sym
from facts import callee_of, strip_generics


class Ctx:
    """Collects obligations of one check run."""

    def __init__(self, prop, facts_by_config, tier):
        self.prop = prop
        self.facts = facts_by_config  # config -> Facts
        self.tier = tier
        self.obs = []  # dicts
        self._seen = set()
        self.analysed_fns = set()
        self.analysed_paths = 0
        self.analysed_calls = 0
        self._paths = {}

    def f(self, config=None):
        if config is None:
            config = next(iter(self.facts))
        return self.facts[config]

    def ob(self, rule, site, ok, detail="", loc=None, config=None):
        """Record one obligation. `site` identifies the construct without line numbers."""
        o = {"rule": rule, "site": site, "ok": bool(ok), "detail": detail, "loc": loc, "config": config}
        k = (rule, site, bool(ok), detail, config)
        if k not in self._seen:
            self._seen.add(k)
            self.obs.append(o)
        return bool(ok)

    def floor(self, rule, what, count, floor, config=None):
        """Instance-count floor: a rule that matches fewer sites than were confirmed by hand
        fails closed."""
        return self.ob(
            rule,
            "floor:" + what,
            count >= floor,
            "%d instance(s) of %s found, floor %d" % (count, what, floor),
            config=config,
        )

    def body(self, facts, path, rule):
        b = facts.body(path)
        if b is None:
            self.ob(rule, "anchor:" + path, False, "anchor-missing: no body named %s in %s" % (path, facts.config), config=facts.config)
            return None
        self.analysed_fns.add(b.path)
        return b

    def paths(self, body, **kw):
        key = (id(body), tuple(sorted((k, str(v)) for k, v in kw.items())))
        if key not in self._paths:
            if "inline" not in kw:
                kw = dict(kw, inline=inline_policy(body.facts))
            ps = sym.walk(body, **kw)
            self._paths[key] = ps
            self.analysed_paths += len(ps)
        self.analysed_fns.add(body.path)
        return self._paths[key]


# ------------------------------------------------------------------ term matchers

def fields_of(t):
    """Names of the field projections of a place term, outermost last; derefs/downcasts ignored."""
    if t[0] != "pl":
        return ()
    return tuple(e[2] for e in t[2] if isinstance(e, tuple) and e[0] == "f")


def root_of(t):
    while t[0] in ("pl", "ref"):
        t = t[1]
    return t


def is_self_field(t, *names):
    """t is `self.<names...>` (through any number of derefs)."""
    r = root_of(t)
    if t[0] == "ref":
        t = t[1]
    return r[0] == "arg" and fields_of(t) == tuple(names)


def ends_with_fields(t, *names):
    if t[0] == "ref":
        t = t[1]
    fs = fields_of(t)
    return fs[-len(names):] == tuple(names)


def call_is(t, *suffixes):
    """t is the result of a call to a function whose path ends with one of the suffixes."""
    if t[0] != "call" or not isinstance(t[2], str):
        return False
    return name_is(t[2], *suffixes)


def name_is(path, *suffixes):
    if not isinstance(path, str):
        return False
    p = strip_generics(path)
    for s in suffixes:
        if p == s or p.endswith("::" + s) or p.endswith(">::" + s):
            return True
    return False


def upvar_of(body, t):
    """Name of the captured variable a closure-body term refers to (`(*_1.N)`), else None."""
    t = strip_wrappers(t)
    if t[0] == "pl" and t[1][0] == "arg" and t[1][1] == 1:
        fs = [e for e in t[2] if isinstance(e, tuple) and e[0] == "f"]
        if fs:
            return body.upvars.get(fs[0][1])
    return None


def strip_wrappers(t):
    """Look through refs, casts and derefs without field projections."""
    while True:
        if t[0] == "ref":
            t = t[1]
        elif t[0] == "cast":
            t = t[1]
        elif t[0] == "pl" and all(e == "*" for e in t[2]):
            t = t[1]
        else:
            return t


def events(path, kind):
    return [e for e in path if e[0] == kind]


def calls(path):
    return [e for e in path if e[0] == "call"]


def call_names(path):
    return [sym.short(e[2]) for e in path if e[0] == "call"]


def ret_of(path):
    for e in reversed(path):
        if e[0] == "ret":
            return e[2]
    return None


def ends(path):
    return path[-1][0] if path else None


def decisions(path):
    """[(term, value, listed)] of the forks taken on this path."""
    return [(e[2], e[3], e[4]) for e in path if e[0] == "switch"]


def decision_on(path, pred):
    """Value taken on the first fork whose scrutinee satisfies pred; None if no such fork."""
    for e in path:
        if e[0] == "switch" and pred(e[2]):
            return e[3]
    return None


def is_error_exit(path):
    """The path returns an error that it received from a callee: `x?` (from_residual) or the explicit
    `match x { Err(e) => return Err(e.into()), .. }` / `return Err(e)` spelling of the same thing."""
    r = ret_of(path)
    if r is None:
        return False
    if r[0] == "call" and name_is(r[2], "from_residual"):
        return True
    if r[0] == "agg" and r[2] == "Err" and r[3]:
        inner = r[3][0]
        while inner[0] == "call" and name_is(inner[2], "into", "from") and inner[3]:
            inner = inner[3][0]
        inner = strip_wrappers(inner)
        if inner[0] == "pl" and any(isinstance(x, tuple) and x[0] == "d" and x[2] in ("Err", "Break") for x in inner[2]):
            return True
    return False


def tried(t):
    """If t is the success payload of `x?` / `match x { Ok(v) | Some(v) => v, .. }`, return x; else None."""
    if t[0] == "pl" and len(t[2]) >= 2 and isinstance(t[2][0], tuple) and t[2][0][0] == "d" and t[2][0][2] in ("Ok", "Some", "Continue") and isinstance(t[2][1], tuple) and t[2][1][0] == "f":
        inner = t[1]
        if inner[0] == "call" and name_is(inner[2], "branch") and inner[3]:
            return inner[3][0]
        return inner
    return None


def _const_usize(t):
    t = strip_wrappers(t)
    if t[0] == "c" and isinstance(t[2], int) and not isinstance(t[2], bool):
        return t[2]
    return None


def _len_minus(t, base):
    """t == len(base) - c  ->  c ; t == len(base) -> 0 ; else None"""
    t = strip_wrappers(t)
    def is_len(x):
        x = strip_wrappers(x)
        if x[0] == "len":
            return _same(strip_wrappers(x[1]), base)
        return x[0] == "call" and name_is(x[2], "len") and x[3] and _same(strip_wrappers(x[3][0]), base)
    if is_len(t):
        return 0
    if t[0] == "bin" and t[1] == "Sub" and is_len(t[2]):
        return _const_usize(t[3])
    return None


def _same(a, b):
    import re
    if a == b:
        return True
    n = lambda t: re.sub(r"[*&() ]", "", sym.show(t))
    return n(a) == n(b)


def slice_norm(t):
    """Normal form of a byte-slice expression built by constant cuts of another slice:
    -> (base, front, back, tested) meaning base[front .. len(base) - back]; `tested` is the set of ('prefix'|'suffix',
    literal) facts the expression itself establishes (payloads of strip_prefix / strip_suffix).  Spellings covered:
    &b[a..len-c], &b[a..], &b[..len-c], b.get(range)?, b.strip_prefix(lit)?, b.strip_suffix(lit)?, and nestings.
    Returns (t, 0, 0, set()) for anything else (a base)."""
    t = strip_wrappers(t)
    while t[0] == "call" and name_is(t[2], "deref", "as_ref", "borrow") and t[3]:
        t = strip_wrappers(t[3][0])
    inner = None
    rng = None
    if t[0] == "call" and name_is(t[2], "index") and len(t[3]) == 2 and t[3][1][0] == "agg":
        inner, rng = t[3][0], t[3][1]
    elif t[0] == "pl":
        x = tried(t)
        if x is not None and x[0] == "call" and len(x[3]) == 2:
            if name_is(x[2], "get") and x[3][1][0] == "agg":
                inner, rng = x[3][0], x[3][1]
            elif name_is(x[2], "strip_prefix", "strip_suffix"):
                lit = bytes_literal(x[3][1])
                if lit is not None:
                    b, f, k, ts = slice_norm(x[3][0])
                    if name_is(x[2], "strip_prefix"):
                        return (b, f + len(lit), k, ts | {("prefix", lit, f)})
                    return (b, f, k + len(lit), ts | {("suffix", lit, k)})
    if inner is None:
        return (t, 0, 0, frozenset())
    b, f, k, ts = slice_norm(inner)
    cur = strip_wrappers(inner)
    while cur[0] == "call" and name_is(cur[2], "deref", "as_ref", "borrow") and cur[3]:
        cur = strip_wrappers(cur[3][0])
    kind = rng[2]
    if kind == "RangeFull":
        return (b, f, k, ts)
    lo = _const_usize(rng[3][0]) if kind in ("Range", "RangeFrom") else 0
    hi = _len_minus(rng[3][-1], cur) if kind in ("Range", "RangeTo") else 0
    if lo is None or hi is None:
        return (t, 0, 0, frozenset())
    return (b, f + lo, k + hi, ts)


STD_WHITESPACE_NOTIONS = ("is_ascii_whitespace", "char::methods::<impl char>::is_whitespace", "<impl char>::is_whitespace", "<impl str>::trim", "<impl str>::trim_start", "<impl str>::trim_end",
                          "trim_ascii", "trim_ascii_start", "trim_ascii_end", "split_whitespace", "split_ascii_whitespace")


def one_whitespace_notion(ctx, rule, F, cfg):
    """XML whitespace is {space, tab, CR, LF}.  std's notions differ (ASCII adds form feed, Unicode adds much more), so
    no non-test code of the crate may consult them: every blank test goes through utils::is_whitespace (whose set is
    checked separately).  Expected count zero; the positive control is that the crate's own predicate *is* found."""
    hits = []
    own = 0
    for b in F.bodies:
        if is_derive(b) or "::tests::" in b.path or "::test::" in b.path:
            continue
        for i, t in b.calls():
            d, r = callee_of(t)
            for x in (d, r):
                if not x:
                    continue
                if name_is(x, "utils::is_whitespace"):
                    own += 1
                    break
                if "quick_xml" not in x and any(x.endswith(k) or x.endswith(k + ">") for k in STD_WHITESPACE_NOTIONS):
                    hits.append((b, t, x))
                    break
    for b, t, x in hits:
        ctx.ob(rule, "std-whitespace:%s:%s" % (sym.short(strip_generics(b.path)), x.split("::")[-1]), False,
               "std's %s is not XML whitespace ({space, tab, CR, LF}): form feed / Unicode blanks would be treated as blank here" % x.split("::")[-1], loc=b.loc(t["s"]), config=cfg)
    ctx.ob(rule, "one-whitespace-notion", not hits and own >= 5, "no std whitespace helper is consulted in the crate; utils::is_whitespace is (%d call sites)" % own, config=cfg)


def carried_counter(loop_event):
    """(name, value) of the loop-carried integer that is kept or stepped by a constant on this back edge
    (`depth`, `count`, ...), identified by shape and not by its name; None when there is none or several."""
    if not loop_event or loop_event[0] != "loop":
        return None
    cands = []
    for nm, v in loop_event[2].items():
        v0 = strip_wrappers(v)
        if v0[0] == "phi" and v0[3] == nm and len(v0) > 4 and strip_wrappers(v0[4])[0] == "c" and isinstance(strip_wrappers(v0[4])[2], int):
            cands.append((nm, v0))
        elif v0[0] == "bin" and v0[1] in ("Add", "Sub") and strip_wrappers(v0[2])[0] == "phi" and strip_wrappers(v0[2])[3] == nm and strip_wrappers(v0[3])[0] == "c":
            cands.append((nm, v0))
    return cands[0] if len(cands) == 1 else None


def returns_none(body, path):
    """agg None, or `?` on an Option in a function that returns Option"""
    r = ret_of(path)
    if r is None:
        return False
    if r[0] == "agg" and r[2] == "None":
        return True
    return r[0] == "call" and name_is(r[2], "from_residual") and body.locals[0].startswith("std::option::Option<")


def variant_of(t):
    """(adt, variant) of an aggregate term, looking through nothing."""
    if t[0] == "agg":
        return t[1], t[2]
    return None


def describe_ret(t, depth=3):
    """Nested variant names of a returned aggregate: Result::Err(Error::IllFormed(IllFormedError::X))
    -> ('Err','IllFormed','X')."""
    out = []
    while t is not None and t[0] == "agg" and depth >= 0:
        out.append(t[2])
        if t[3]:
            t = t[3][0]
        else:
            t = None
        depth -= 1
    return tuple(out), t


def has_subterm(t, pred):
    for s in sym.subterms(t):
        if pred(s):
            return True
    return False


# ------------------------------------------------------------------ byte predicates

STD_BYTE_CLASSES = {
    # documented sets of the std byte/char classification helpers (library facts)
    "is_ascii_whitespace": lambda v: v in (9, 10, 12, 13, 32),
    "is_ascii_digit": lambda v: 48 <= v <= 57,
    "is_ascii_alphabetic": lambda v: 65 <= v <= 90 or 97 <= v <= 122,
    "is_ascii_alphanumeric": lambda v: 48 <= v <= 57 or 65 <= v <= 90 or 97 <= v <= 122,
    "is_ascii_uppercase": lambda v: 65 <= v <= 90,
    "is_ascii_lowercase": lambda v: 97 <= v <= 122,
    "is_ascii_punctuation": lambda v: 33 <= v <= 47 or 58 <= v <= 64 or 91 <= v <= 96 or 123 <= v <= 126,
    "is_ascii_control": lambda v: v < 32 or v == 127,
    "is_ascii_graphic": lambda v: 33 <= v <= 126,
    "is_ascii_hexdigit": lambda v: 48 <= v <= 57 or 65 <= v <= 70 or 97 <= v <= 102,
    "is_ascii": lambda v: v < 128,
}


_BYTE_FN_SETS = {}


def strip_generics_local(p):
    import re as _re
    prev = None
    while prev != p:
        prev = p
        p = _re.sub(r"::<[^<>]*>", "", p)
    return p


def byte_predicate_set(F, body, isws=None):
    """Set of bytes for which a loop-free closure `|(_, &b)| ..` / `|&b| ..` / `|b| ..` over ONE byte returns true, by
    evaluating its symbolic paths for each of the 256 values.  The byte is whatever place rooted at the closure's last
    parameter the terms mention; calls are understood only for utils::is_whitespace and std's u8 class helpers.
    None when a term is outside that vocabulary (the caller decides what that means)."""
    if isws is None:
        w = F.body("utils::is_whitespace")
        isws = valueset(w) if w is not None else set()
    param = body.argc

    class Unknown(Exception):
        pass

    def ev(t, b):
        t = strip_wrappers(t)
        if t[0] == "c":
            if isinstance(t[2], bool):
                return t[2]
            if isinstance(t[2], int):
                return t[2]
            if t[1] == "char":
                return char_value(t[2])
            raise Unknown
        if t[0] in ("arg",) and t[1] == param:
            return b
        if t[0] == "pl" and root_of(t)[0] == "arg" and root_of(t)[1] == param and not any(isinstance(x, tuple) and x[0] == "f" and x[2] not in ("1", "0") for x in t[2]):
            # (*_2.1): the item of an enumerate()/zip() pair; (*_2): the byte itself.  Field 0 of a pair is the index: not a byte.
            if any(isinstance(x, tuple) and x[0] == "f" and x[2] == "0" for x in t[2]) and any(isinstance(x, tuple) and x[0] == "f" for x in t[2]):
                fs = [x[2] for x in t[2] if isinstance(x, tuple) and x[0] == "f"]
                if fs[-1] == "0":
                    raise Unknown
            return b
        if t[0] == "un" and t[1] == "Not":
            v = ev(t[2], b)
            return (not v) if isinstance(v, bool) else Unknown
        if t[0] == "bin":
            x, y = ev(t[2], b), ev(t[3], b)
            op = t[1]
            if op == "Eq": return x == y
            if op == "Ne": return x != y
            if op == "Lt": return x < y
            if op == "Le": return x <= y
            if op == "Gt": return x > y
            if op == "Ge": return x >= y
            if op in ("BitOr", "Or"): return bool(x) or bool(y)
            if op in ("BitAnd", "And"): return bool(x) and bool(y)
            raise Unknown
        if t[0] == "call" and isinstance(t[2], str) and t[3]:
            x = ev(t[3][0], b)
            if name_is(t[2], "utils::is_whitespace"):
                return x in isws
            std = {"is_ascii_whitespace": {9, 10, 12, 13, 32}, "is_ascii_digit": set(range(48, 58)), "is_ascii_alphabetic": set(range(65, 91)) | set(range(97, 123)),
                   "is_ascii_alphanumeric": set(range(48, 58)) | set(range(65, 91)) | set(range(97, 123)), "is_ascii_control": set(range(0, 32)) | {127}, "is_ascii": set(range(128))}
            for k, vs in std.items():
                if name_is(t[2], k):
                    return x in vs
            # a crate-local predicate over one byte (e.g. the closure's test moved into a named fn)
            if "quick_xml::" in t[2] and len(t[3]) == 1:
                cb = F.body(strip_generics_local(t[2]).split("quick_xml::", 1)[-1])
                if cb is not None and cb.argc == 1:
                    key = cb.path
                    if key not in _BYTE_FN_SETS:
                        try:
                            _BYTE_FN_SETS[key] = valueset(cb)
                        except Exception:
                            _BYTE_FN_SETS[key] = None
                        if _BYTE_FN_SETS[key] is None or True:
                            inner = byte_predicate_set(F, cb, isws) if _BYTE_FN_SETS[key] is None else _BYTE_FN_SETS[key]
                            _BYTE_FN_SETS[key] = inner
                    if _BYTE_FN_SETS[key] is not None:
                        return x in _BYTE_FN_SETS[key]
        raise Unknown

    out = set()
    try:
        paths = sym.walk(body)
        for b in range(256):
            val = None
            for p in paths:
                feasible = True
                for e in p:
                    if e[0] != "switch":
                        continue
                    v = ev(e[2], b)
                    if isinstance(v, bool):
                        took_true = e[3] != 0
                        if v != took_true:
                            feasible = False
                            break
                    else:
                        if isinstance(e[3], int) and not isinstance(e[3], bool):
                            if v != e[3]:
                                feasible = False
                                break
                        else:   # otherwise edge: none of the listed values
                            if v in (e[4] or ()):
                                feasible = False
                                break
                if not feasible:
                    continue
                r = ret_of(p)
                if r is None:
                    raise Unknown
                val = ev(r, b)
                break
            if val is None or not isinstance(val, bool):
                raise Unknown
            if val:
                out.add(b)
    except Unknown:
        return None
    except Exception:
        return None
    return out


def _std_class(user):
    def f(name):
        if user is not None:
            r = user(name)
            if r is not None:
                return r
        for k, fn in STD_BYTE_CLASSES.items():
            if name_is(name, k):
                return fn
        return None
    return f


def valueset(body, domain=range(256), param=None, max_paths=5000, callee=None):
    callee = _std_class(callee)
    """Set of values of the (last) integer/char parameter for which a loop-free predicate
    returns true, by interval/value-set propagation along every path: each fork on the
    parameter (or on a comparison of it with a constant) splits the set."""
    if param is None:
        param = body.argc  # closures: (self, x); fns: (x)
    true_set = set()
    dom = set(domain)

    def is_param(t):
        t2 = strip_wrappers(t)
        return t2[0] == "arg" and t2[1] == param

    def eval_bool(t, v):
        """Evaluate a boolean term for parameter value v; None if not closed."""
        if t[0] == "c" and isinstance(t[2], bool):
            return t[2]
        if t[0] == "bin" and t[1] in sym.CMP:
            a = eval_int(t[2], v)
            b = eval_int(t[3], v)
            if a is None or b is None:
                return None
            return sym.CMP[t[1]](a, b)
        if t[0] == "bin" and t[1] in ("BitAnd", "BitOr"):
            a = eval_bool(t[2], v)
            b = eval_bool(t[3], v)
            if a is None or b is None:
                return None
            return (a and b) if t[1] == "BitAnd" else (a or b)
        if t[0] == "un" and t[1] == "Not":
            a = eval_bool(t[2], v)
            return None if a is None else (not a)
        if t[0] == "call" and callee is not None and len(t[3]) == 1:
            a = eval_int(t[3][0], v)
            f = callee(t[2])
            if a is not None and f is not None:
                return f(a)
        return None

    def eval_int(t, v):
        if t[0] == "c" and isinstance(t[2], int) and not isinstance(t[2], bool):
            return t[2]
        if t[0] == "c" and t[1] == "char":
            return char_value(t[2])
        if is_param(t):
            return v
        if t[0] == "cast":
            return eval_int(t[1], v)
        return None

    for v in sorted(dom):
        def dec(term, listed, v=v):
            r = eval_bool(term, v)
            if r is None:
                r = eval_int(term, v)
            if r is None:
                raise ValueError("valueset: fork on non-closed term %s in %s" % (sym.show(term), body.path))
            return int(r)
        ps = sym.Walker(body, max_paths=4, decide=dec).run()
        if len(ps) != 1:
            raise ValueError("valueset: %d paths for one value in %s" % (len(ps), body.path))
        p = ps[0]
        if p[-1][0] != "ret":
            continue
        r = ret_of(p)
        rb = eval_bool(r, v)
        if rb is None:
            raise ValueError("valueset: non-closed return %s in %s" % (sym.show(r), body.path))
        if rb:
            true_set.add(v)
    return true_set


def char_value(s):
    """rustc prints chars as 'x' or '\\u{..}' or '\\n'."""
    inner = s[1:-1]
    if len(inner) == 1:
        return ord(inner)
    m = re.match(r"^\\u\{([0-9a-fA-F]+)\}$", inner)
    if m:
        return int(m.group(1), 16)
    esc = {"\\n": 10, "\\r": 13, "\\t": 9, "\\'": 39, '\\"': 34, "\\\\": 92, "\\0": 0}
    if inner in esc:
        return esc[inner]
    raise ValueError("char literal " + s)


def bytes_literal(t):
    """Value of a byte-string / str constant term as Python bytes, else None."""
    t = strip_wrappers(t)
    if t[0] != "c":
        return None
    v = t[2]
    if not isinstance(v, str):
        return None
    if v.startswith('b"') and v.endswith('"'):
        return unescape_rust(v[2:-1])
    if v.startswith('"') and v.endswith('"'):
        return unescape_rust(v[1:-1])
    if v.startswith("b'") and v.endswith("'"):
        return unescape_rust(v[2:-1])
    return None


def unescape_rust(s):
    out = bytearray()
    i = 0
    while i < len(s):
        c = s[i]
        if c == "\\":
            n = s[i + 1]
            if n == "x":
                out.append(int(s[i + 2 : i + 4], 16))
                i += 4
                continue
            if n == "u":
                j = s.index("}", i)
                out += chr(int(s[i + 3 : j], 16)).encode()
                i = j + 1
                continue
            out.append({"n": 10, "r": 13, "t": 9, "\\": 92, "'": 39, '"': 34, "0": 0}[n])
            i += 2
            continue
        out += c.encode()
        i += 1
    return bytes(out)


# ------------------------------------------------------------------ crate-wide queries

def callers_of(facts, *suffixes):
    """[(body, block, terminator)] of every call whose resolved or declared callee matches."""
    out = []
    for b in facts.bodies:
        for i, t in b.calls():
            d, r = callee_of(t)
            if d is None:
                continue
            if name_is(d, *suffixes) or name_is(r, *suffixes):
                out.append((b, i, t))
    return out


_SOLE = {}


def sole_caller(facts, body):
    """A private (not `pub`) function whose every call site lies in one other function: the body of that function, else
    None.  Such a helper is a piece of its caller (the result of `extract function`), so facts audited for the caller
    -- who may construct a validated type, which panic-capable sites were argued safe -- extend to it."""
    key = (id(facts), body.path)
    if key in _SOLE:
        return _SOLE[key]
    out = None
    p = strip_generics(body.path)
    f = facts.fns.get(p)
    if f is not None and f.get("vis") != "Public" and "{closure" not in body.path:
        owners = set()
        for b in facts.bodies:
            if b is body:
                continue
            for _, t in b.calls():
                d, r = callee_of(t)
                if (d and strip_generics(d) == p) or (r and strip_generics(r) == p):
                    owners.add(re.sub(r"::\{closure#\d+\}", "", b.path))
        if len(owners) == 1:
            out = facts.by_raw.get(owners.pop())
    _SOLE[key] = out
    return out


def is_derive(body):
    """Body produced by a #[derive] / serde derive expansion."""
    s = body.span(body.j["span"])
    return any(x.startswith("Derive:") or x.startswith("Attr:") for x in s["bt"])


def macro_roots(body, idx):
    """Names of the `macro_rules!`/bang macros in the backtrace of span idx (innermost first)."""
    s = body.span(idx)
    return [x.split(":", 1)[1] for x in s["bt"] if x.startswith("Bang:")]


def fn_sites(body, name_suffixes):
    return [(i, t) for i, t in body.calls() if name_is(callee_of(t)[1] or "", *name_suffixes) or name_is(callee_of(t)[0] or "", *name_suffixes)]


def shortfn(p):
    return sym.short(p)


def body_constants(body):
    """All integer / char constants mentioned in switch tables and comparisons of a body."""
    out = set()

    def visit(o):
        if isinstance(o, dict):
            if "k" in o and isinstance(o["k"], dict) and "v" in o["k"]:
                t = sym.const_term(o["k"])
                if t[0] == "c":
                    if isinstance(t[2], int) and not isinstance(t[2], bool):
                        out.add(t[2])
                    elif t[1] == "char":
                        try:
                            out.add(char_value(t[2]))
                        except ValueError:
                            pass
            for v in o.values():
                visit(v)
        elif isinstance(o, list):
            for v in o:
                visit(v)

    for blk in body.blocks:
        visit(blk["stmts"])
        t = blk["term"]
        visit(t)
        if t["k"] == "switch":
            for v, _ in t["vals"]:
                out.add(v)
    return out


def valueset_intervals(body, maxv=0x10FFFF, callee=None, extra_consts=()):
    """Exact accepted set of a predicate over 0..=maxv as a sorted list of inclusive intervals:
    the domain is partitioned at every constant the body mentions, one representative per cell."""
    ks = set(body_constants(body)) | set(extra_consts)
    reps = {0, maxv}
    for k in ks:
        for d in (-1, 0, 1):
            if 0 <= k + d <= maxv:
                reps.add(k + d)
    reps = sorted(reps)
    acc = valueset(body, domain=reps, callee=callee)
    out = []
    for i, r in enumerate(reps):
        hi = reps[i + 1] - 1 if i + 1 < len(reps) else maxv
        if r in acc:
            if out and out[-1][1] == r - 1:
                out[-1][1] = hi
            else:
                out.append([r, hi])
    return [tuple(x) for x in out]


def in_intervals(iv, v):
    return any(a <= v <= b for a, b in iv)


def run_witnesses(ctx, rule, wanted):
    """Thorough tier: compile-fail witnesses (rustdoc `compile_fail,E0xxx` with compiling `no_run` twins).
    Nothing of quick-xml is executed; the harness crate path-depends on /repo."""
    import os, shutil, subprocess, re
    from facts import VERIF, REPO
    w = os.path.join(VERIF, "witness")
    lock = os.path.join(REPO, "Cargo.lock")
    if os.path.exists(lock):
        shutil.copy(lock, os.path.join(w, "Cargo.lock"))
    env = dict(os.environ)
    env["CARGO_TARGET_DIR"] = os.path.join(os.environ.get("VERIF_CACHE", os.path.join(VERIF, ".cache")), "witness-target")
    env["CARGO_NET_OFFLINE"] = "true"
    env.pop("RUSTC_WORKSPACE_WRAPPER", None)
    p = subprocess.run(["cargo", "+nightly", "test", "--doc", "--offline"], cwd=w, env=env, stdout=subprocess.PIPE, stderr=subprocess.STDOUT, text=True)
    res = {}
    for m in re.finditer(r"test src/lib.rs - (\w+) \(line \d+\)( - compile fail| - compile)? \.\.\. (\w+)", p.stdout):
        res.setdefault(m.group(1), []).append((m.group(2) == " - compile fail", m.group(3)))
    for name in wanted:
        rs = res.get(name, [])
        cf = [r for r in rs if r[0]]
        tw = [r for r in rs if not r[0]]
        ok = bool(cf) and bool(tw) and all(r[1] == "ok" for r in rs)
        ctx.ob(rule, "witness:" + name, ok, "compile-fail witness and its compiling twin: %s%s" % (rs, "" if rs else " | cargo output: " + p.stdout[-300:]))
    return {"witnesses_run": sorted(res)}


# ------------------------------------------------------------------ helper inlining policy

_ATOMS = None


def atoms():
    """Function names the rules talk about (every identifier-like string literal of the rule modules).
    Crate functions with such a name are *atoms* of the analysis; any other small loop-free crate function
    (typically a private helper extracted by a refactoring) is inlined by the walker."""
    global _ATOMS
    if _ATOMS is None:
        import glob, os
        here = os.path.dirname(os.path.abspath(__file__))
        names = set()
        for f in glob.glob(os.path.join(here, "*.py")) + glob.glob(os.path.join(here, "props", "*.py")):
            if os.path.basename(f) == "dbg.py":
                continue
            src = open(f).read()
            for m in re.finditer(r"[\"']([A-Za-z_][A-Za-z0-9_:<>]*)[\"']", src):
                names.add(m.group(1).split("::")[-1])
        _ATOMS = names
    return _ATOMS


_POLICIES = {}


def inline_policy(facts):
    if id(facts) in _POLICIES:
        return _POLICIES[id(facts)]
    at = atoms()

    def pol(path):
        if path.startswith("closure:"):
            b = facts.closure(path[len("closure:"):])
            return b if b is not None and len(b.blocks) <= 40 else None
        p = strip_generics(path)
        last = p.split("::")[-1]
        if last in at or last.startswith("{closure"):
            return None
        bs = facts.by_path.get(p)
        if not bs or len(bs) != 1:
            return None
        b = bs[0]
        if len(b.blocks) > 80 or is_derive(b):
            return None
        f = facts.fns.get(p)
        if f is None or f.get("async"):
            return None
        return b

    _POLICIES[id(facts)] = pol
    return pol
