"""Path-sensitive symbolic walk of a MIR body (no solver; syntactic terms only).

Terms (tuples):
  ('c', ty, text)                  constant as rustc prints it  (ints are normalised: ('c','u8',62))
  ('fn', path)                     function item
  ('arg', n, name)                 n-th parameter (1-based local index)
  ('loc', n)                       uninitialised / unknown local
  ('pl', base, proj)               place: projection tuple applied to a base term
  ('ref', term)                    &term / &mut term
  ('call', bb, path, args)         result of the call at block bb
  ('discr', term)
  ('bin', op, a, b) ('un', op, a) ('cast', a, ty)
  ('agg', adt, variant, ops)       ('tuple', ops) ('array', ops) ('closure', path, ops)
  ('yield', bb)
Events of a path, in order:
  ('switch', bb, term, value|'else', listed_values)
  ('call', bb, path, args, span, generic_args_text)
  ('store', bb, place_term, value_term, span)   assignment to a non-local place (through a reference / field of an argument)
  ('assert', bb, kind, span)
  ('ret', bb, term) | ('loop', bb, carried) | ('diverge', bb) | ('unreachable', bb) | ('head', bb) first entry of a loop header
"""
import re

from facts import callee_of, strip_generics


class PathBudget(Exception):
    pass


INT_RE = re.compile(r"^(-?\d+)_([iu](?:8|16|32|64|128|size))$")


def const_term(k):
    ty = k["ty"]
    if "fn" in k:
        if k["fn"].endswith("future::Future::poll"):
            # keep the trait method: the resolved callee of a poll is the coroutine body itself
            return ("fn", "std::future::Future>::poll", k.get("fnargs", ""))
        return ("fn", strip_generics(k.get("rfn", k["fn"])), k.get("fnargs", ""))
    if "closure" in k:
        return ("closure", k["closure"], ())
    if "static" in k:
        return ("c", ty, "static " + k["static"])
    v = k.get("ev", k["v"])
    if v.startswith("const "):
        v = v[6:]
    m = INT_RE.match(v)
    if m:
        return ("c", m.group(2), int(m.group(1)))
    m = re.match(r"^([iu])(8|16|32|64|128|size)::(MAX|MIN)$", v)
    if m:
        bits = 64 if m.group(2) == "size" else int(m.group(2))
        if m.group(1) == "u":
            val = (1 << bits) - 1 if m.group(3) == "MAX" else 0
        else:
            val = (1 << (bits - 1)) - 1 if m.group(3) == "MAX" else -(1 << (bits - 1))
        return ("c", m.group(1) + m.group(2), val)
    if v in ("true", "false") and ty == "bool":
        return ("c", "bool", v == "true")
    if ty == "char" and len(v) >= 3 and v[0] == "'":
        return ("c", "char", v)
    t = ("c", ty, v)
    if "uneval" in k:
        return ("c", ty, v, k["uneval"])
    return t


def const_value(t):
    if t[0] == "c":
        return t[2]
    return None


TRY_OK = {"Option": (("d", 1, "Some"), ("f", 0, "0", "std::option::Option")), "Result": (("d", 0, "Ok"), ("f", 0, "0", "std::result::Result"))}
TRY_ERR = (("d", 1, "Err"), ("f", 0, "0", "std::result::Result"))


def mk_place(base, proj):
    """Normalise: deref of ref cancels; nested places flatten; field of aggregate selects operand."""
    for e in proj:
        # `x?` normal form: the Continue payload of Try::branch(x) is x's Some/Ok payload, the Break payload its residual
        if base[0] == "try" and isinstance(e, tuple) and e[0] == "d" and e[2] in ("Continue", "Break"):
            base = ("tryc" if e[2] == "Continue" else "tryb", base[1], base[2])
            continue
        if base[0] == "tryc" and isinstance(e, tuple) and e[0] == "f" and e[1] == 0:
            base = mk_place(base[1], TRY_OK[base[2]])
            continue
        if base[0] == "tryb" and isinstance(e, tuple) and e[0] == "f" and e[1] == 0:
            if base[2] == "Option":
                base = ("agg", "std::option::Option", "None", (), 0)
            else:
                base = ("agg", "std::result::Result", "Err", (mk_place(base[1], TRY_ERR),), 1)
            continue
        if base[0] == "call" and isinstance(e, tuple) and e[0] == "d" and e[2] == "Ready" and isinstance(base[2], str) and base[2].endswith("Future>::poll"):
            # `.await` desugaring: match poll(Pin::new_unchecked(&mut into_future(X)), cx) { Ready(v) => v, Pending => yield }
            base = ("await", await_inner(base[3][0]))
            continue
        if base[0] == "await" and isinstance(e, tuple) and e[0] == "f" and e[1] == 0 and len(base) == 2:
            base = ("await", base[1], "v")
            continue
        if base[0] == "bin" and base[1].endswith("WithOverflow") and isinstance(e, tuple) and e[0] == "f" and e[1] == 0:
            base = fold_bin(base[1][: -len("WithOverflow")], base[2], base[3])  # (a +ovf b).0 is a + b
            continue
        if e == "*":
            if base[0] == "ref":
                base = base[1]
                continue
        elif isinstance(e, tuple) and e[0] == "f":
            if base[0] == "closure" and e[1] < len(base[2]):
                base = base[2][e[1]]  # captured variable of a closure built on this path
                continue
            if base[0] == "agg" and e[1] < len(base[3]):
                base = base[3][e[1]]
                continue
            if base[0] == "tuple" and e[1] < len(base[1]):
                base = base[1][e[1]]
                continue
        elif isinstance(e, tuple) and e[0] == "d":
            if base[0] == "agg":
                # downcast of a known aggregate: keep the aggregate
                continue
        if base[0] == "pl":
            base = ("pl", base[1], base[2] + (e,))
        else:
            base = ("pl", base, (e,))
    return base


def await_inner(t):
    while True:
        if t[0] == "ref":
            t = t[1]
        elif t[0] == "call" and isinstance(t[2], str) and (t[2].endswith("Pin::new_unchecked") or t[2].endswith("into_future") or t[2].endswith("Pin::new")):
            t = t[3][0]
        else:
            return t


def proj_of(jp):
    out = []
    for e in jp:
        if e == "*":
            out.append("*")
        elif isinstance(e, dict):
            if "f" in e:
                out.append(("f", e["f"], e["n"], e.get("of", "")))
            elif "d" in e:
                out.append(("d", e["d"], e["n"]))
            elif "ix" in e:
                out.append(("ix", e["ix"]))
            elif "ci" in e:
                out.append(("ci", e["ci"], e["from_end"]))
            elif "sub" in e:
                out.append(("sub", e["sub"][0], e["sub"][1], e["from_end"]))
            else:
                out.append(("?", str(e)))
        else:
            out.append(("?", str(e)))
    return tuple(out)


class State:
    __slots__ = ("env", "mem", "events", "visited", "known", "shared")

    def __init__(self):
        self.env = {}
        self.mem = {}
        self.events = []
        self.visited = ()
        self.known = {}  # scrutinee term -> ("eq", value) | ("ne", frozenset(values)) decided earlier on this path
        self.shared = frozenset()  # places only ever borrowed immutably on this path (a callee cannot write through `&T`)

    def fork(self):
        s = State()
        s.env = dict(self.env)
        s.mem = dict(self.mem)
        s.events = list(self.events)
        s.visited = self.visited
        s.known = dict(self.known)
        s.shared = self.shared
        return s


class Walker:
    def __init__(self, body, max_paths=20000, decide=None, stop_at=None, revisit=1, keep_switch=None, inline=None, depth=0, pfx=None):
        """decide(term) -> value or None: an oracle that fixes the outcome of a switch
        (used to restrict a walk to one row of a table); keep_switch(term)->bool says which
        undecided switches are recorded as decision events (default: all)."""
        self.b = body
        self.max_paths = max_paths
        self.decide = decide
        self.stop_at = stop_at
        self.revisit = revisit
        self.inline = inline   # callable(path) -> Body to inline or None
        self.pfx = pfx         # block-id prefix of an inlined body: its events, phis and call terms carry ("in", pfx, bb)
        self.depth = depth
        self.paths = []
        self.finals = []       # final State of every path (parallel to self.paths)
        self.loop_written = {}   # header -> locals assigned in the loop
        self.loop_assigned = self._loops()  # header -> locals assigned or mutably borrowed in the loop

    def _loops(self):
        """header block -> locals assigned somewhere in the natural loop(s) of that header."""
        b = self.b
        dom = b.dominators()
        out = {}
        for u in dom:
            for h in b.succs(u):
                if h in dom[u]:  # back edge u -> h
                    body = {h}
                    stack = [u]
                    while stack:
                        x = stack.pop()
                        if x in body:
                            continue
                        body.add(x)
                        stack.extend(p for p in b.preds(x) if p in dom)
                    assigned = out.setdefault(h, set())
                    written = self.loop_written.setdefault(h, set())
                    for x in body:
                        blk = b.blocks[x]
                        for st in blk["stmts"]:
                            # `*p = v` / `(*p).f = v` write through the pointer, they do not reassign the local p
                            if "p" in st and (not st["p"][1] or st["p"][1][0] != "*"):
                                assigned.add(st["p"][0])
                                written.add(st["p"][0])
                            # `&mut x` handed to a callee inside the loop (get_or_insert_with(&mut x, ..)) may change x;
                            # the awaitee of a `.await` poll loop is only polled through its pin, it stays the same future
                            r = st.get("r")
                            if r and r["k"] == "ref" and r.get("mut") and (not r["p"][1] or r["p"][1][0] != "*"):
                                ty = b.locals[r["p"][0]]
                                if not (b.names.get(r["p"][0]) == "__awaitee" or ty.startswith("impl ") or "Future" in ty or "{async" in ty or "Pin<" in ty):
                                    assigned.add(r["p"][0])
                        t = blk["term"]
                        if t["k"] in ("call", "yield") and "dest" in t:
                            assigned.add(t["dest"][0])
                            written.add(t["dest"][0])
        return out

    # -- evaluation --
    def place(self, st, jp):
        l, proj = jp[0], proj_of(jp[1])
        base = st.env.get(l)
        if base is None:
            if 1 <= l <= self.b.argc:
                base = ("arg", l, self.b.local_name(l))
            else:
                base = ("loc", l)
        t = mk_place(base, proj)
        # a load through a projection reads memory now; a bare local is a value captured earlier
        if proj and t in st.mem:
            return st.mem[t]
        return t

    def place_addr(self, st, jp):
        l, proj = jp[0], proj_of(jp[1])
        base = st.env.get(l)
        if base is None:
            base = ("arg", l, self.b.local_name(l)) if 1 <= l <= self.b.argc else ("loc", l)
        return mk_place(base, proj)

    def operand(self, st, o):
        if "c" in o:
            return self.place(st, o["c"])
        if "m" in o:
            return self.place(st, o["m"])
        if "k" in o:
            k = o["k"]
            if "promoted" in k:
                return self.promoted(k["promoted"])
            return const_term(k)
        return ("?", str(o))

    def promoted(self, idx):
        cache = self.b.__dict__.setdefault("_promoted_terms", {})
        if idx not in cache:
            from facts import Body
            pj = self.b.j.get("promoted")
            if pj is None or idx >= len(pj):
                cache[idx] = ("c", "promoted", "promoted[%d]" % idx)
            else:
                pb = Body(self.b.facts, pj[idx])
                ps = Walker(pb, max_paths=50).run()
                rets = [e[2] for p in ps for e in p if e[0] == "ret"]
                cache[idx] = rets[0] if len(rets) == 1 else ("c", "promoted", "promoted[%d]" % idx)
        return cache[idx]

    def rvalue(self, st, r, bb):
        k = r["k"]
        if k == "use":
            return self.operand(st, r["o"])
        if k == "ref" or k == "rawptr":
            t = self.place_addr(st, r["p"])
            if k == "ref" and not r.get("mut"):
                if ("mut", t) not in st.shared:
                    st.shared = st.shared | {t}
            else:
                st.shared = (st.shared - {t}) | {("mut", t)}
            return ("ref", t)
        if k == "cast":
            a = self.operand(st, r["o"])
            if r["ck"].startswith("PointerCoercion"):
                return a  # unsizing &[u8;N] -> &[u8], closure -> fn ptr: same value
            if a[0] == "c" and isinstance(a[2], int) and not isinstance(a[2], bool):
                return ("c", r["ty"], a[2])
            return ("cast", a, r["ty"])
        if k == "bin":
            a = self.operand(st, r["a"])
            b = self.operand(st, r["b"])
            return fold_bin(r["op"], a, b)
        if k == "un":
            a = self.operand(st, r["a"])
            if r["op"] == "Not" and a[0] == "c" and isinstance(a[2], bool):
                return ("c", "bool", not a[2])
            if r["op"] == "PtrMetadata":
                return ("len", a)
            return ("un", r["op"], a)
        if k == "discr":
            t = self.place(st, r["p"])
            if t[0] == "agg":
                return ("c", "discr", ("variant", t[1], t[2], t[4] if len(t) > 4 else None))
            return ("discr", t, r.get("nv", -1), r.get("ety", "").split("<")[0])
        if k == "agg":
            ops = tuple(self.operand(st, o) for o in r["ops"])
            if "adt" in r:
                return ("agg", r["adt"], r["variant"], ops, r.get("vi", 0))
            if "tuple" in r:
                return ("tuple", ops)
            if "array" in r:
                return ("array", ops)
            if "closure" in r:
                return ("closure", r["closure"], ops)
            return ("aggother", ops)
        if k == "repeat":
            return ("repeat", self.operand(st, r["o"]), r["n"])
        return ("other", r.get("s", ""))

    # -- walking --
    def run(self, start=0):
        st = State()
        self._walk(start, st)
        return self.paths

    def run_from(self, st, start=0):
        """Walk from a prepared state; returns [(events, final state)]."""
        self._walk(start, st)
        return list(zip(self.paths, self.finals))

    def T(self, bb):
        return bb if self.pfx is None else ("in", self.pfx, bb)

    def _emit(self, st):
        self.paths.append(st.events)
        self.finals.append(st)
        if len(self.paths) > self.max_paths:
            raise PathBudget("%s: more than %d paths" % (self.b.path, self.max_paths))

    # ---- std combinators as the matches they abbreviate -------------------------------------------------
    STD_MODELS = {
        ("Option", "and_then"): ("none", "apply"),
        ("Option", "map"): ("none", "some(apply)"),
        ("Option", "map_or"): ("arg1", "apply2"),
        ("Option", "unwrap_or"): ("arg1", "payload"),
        ("Option", "ok_or"): ("err(arg1)", "ok(payload)"),
        ("Option", "unwrap_or_default"): None,
        ("Result", "map_err"): ("ok(payload)", "err(apply)"),
        ("Result", "map"): ("ok(apply)", "err(payload)"),
        ("Result", "ok"): ("some(payload)", "none"),
        ("Result", "unwrap_or"): ("payload", "arg1"),
        ("Option", "unwrap_or_else"): ("apply0", "payload"),
        ("Option", "ok_or_else"): ("err(apply0)", "ok(payload)"),
        ("Option", "is_some"): ("false", "true"),
        ("Option", "is_none"): ("true", "false"),
        ("Result", "is_ok"): ("true", "false"),
        ("Result", "is_err"): ("false", "true"),
    }

    def _apply(self, st, bb, fval, args):
        """Results of calling a function value: [(state, result term)] (inlined closure) or one opaque call."""
        f0 = fval
        if f0[0] == "closure" and self.inline is not None and self.depth < 2:
            body = self.inline("closure:" + f0[1])
            if body is not None:
                sub = Walker(body, max_paths=32, inline=self.inline, depth=self.depth + 1, pfx=self.T(bb))
                if not sub.loop_assigned:
                    init = State()
                    init.env[1] = f0
                    for ai, a in enumerate(args):
                        init.env[ai + 2] = a
                    init.mem = dict(st.mem)
                    init.known = dict(st.known)
                    init.shared = st.shared
                    try:
                        results = sub.run_from(init)
                    except PathBudget:
                        results = None
                    if results is not None and all(ev and ev[-1][0] == "ret" for ev, _ in results):
                        out = []
                        for ev, fin in results:
                            s2 = st.fork()
                            s2.events.extend(ev[:-1])
                            s2.mem = dict(fin.mem)
                            s2.known = dict(fin.known)
                            s2.shared = fin.shared
                            out.append((s2, ev[-1][2]))
                        return out
        if f0[0] == "fn":
            st.events.append(("call", ("ap", self.T(bb)), f0[1], tuple(args), 0, f0[2] if len(f0) > 2 else ""))
            return [(st, ("call", ("ap", self.T(bb)), f0[1], tuple(args)))]
        st.events.append(("call", ("ap", self.T(bb)), ("indirect", f0), tuple(args), 0, ""))
        return [(st, ("call", ("ap", self.T(bb)), ("indirect", f0), tuple(args)))]

    def model_std(self, st, bb, path, args, t):
        import re as _re
        m = _re.match(r"^(?:std|core)::(option::Option|result::Result)(?:::<[^>]*(?:<[^>]*>[^>]*)*>)?::(\w+)(?:::<.*>)?$", path)
        if m is None:
            return False
        kind = "Option" if m.group(1).startswith("option") else "Result"
        spec = self.STD_MODELS.get((kind, m.group(2)))
        if spec is None or not args:
            return False
        X = args[0]
        adt = "std::option::Option" if kind == "Option" else "std::result::Result"
        names = ("None", "Some") if kind == "Option" else ("Ok", "Err")
        if X[0] == "agg" and X[2] in names:
            branches = [names.index(X[2])]
        else:
            scrut = ("discr", X, 2, adt)
            kn = st.known.get(scrut)
            if kn is not None and kn[0] == "eq":
                branches = [kn[1]]
            else:
                branches = [0, 1]
        dl, dproj = t["dest"]

        def finish(s2, res):
            if not dproj:
                s2.env[dl] = res
            else:
                s2.mem[self.place_addr(s2, t["dest"])] = res
            self._walk(t["t"], s2)

        def wrap(tag, v):
            if tag == "some":
                return ("agg", "std::option::Option", "Some", (v,), 1)
            if tag == "ok":
                return ("agg", "std::result::Result", "Ok", (v,), 0)
            if tag == "err":
                return ("agg", "std::result::Result", "Err", (v,), 1)
            return v

        for bi, vi in enumerate(branches):
            s2 = st.fork() if bi < len(branches) - 1 else st
            if X[0] != "agg":
                scrut = ("discr", X, 2, adt)
                s2.events.append(("switch", self.T(bb), scrut, vi, (0, 1)))
                s2.known[scrut] = ("eq", vi)
            what = spec[vi]
            has_payload = names[vi] != "None"
            payload = None
            if has_payload:
                payload = X[3][0] if X[0] == "agg" else mk_place(X, (("d", vi, names[vi]), ("f", 0, "0", adt)))
            mm = _re.match(r"^(\w+)\((.*)\)$", what)
            tag, inner = (mm.group(1), mm.group(2)) if mm else ("", what)
            if inner == "none":
                finish(s2, ("agg", "std::option::Option", "None", (), 0))
            elif inner == "payload":
                finish(s2, wrap(tag, payload))
            elif inner == "arg1":
                finish(s2, wrap(tag, args[1]))
            elif inner in ("true", "false"):
                finish(s2, ("c", "bool", inner == "true"))
            elif inner in ("apply", "apply2", "apply0"):
                fval = args[2] if inner == "apply2" else args[1]
                for s3, res in self._apply(s2, bb, fval, () if inner == "apply0" else (payload,)):
                    finish(s3, wrap(tag, res))
            else:
                raise RuntimeError("bad std model " + what)
        return True

    def _walk(self, bb, st):
        b = self.b
        while True:
            if st.visited.count(bb) >= self.revisit:
                carried = {}
                for l in self.loop_assigned.get(bb, ()):
                    if l in b.names and l in st.env:
                        carried[b.names[l]] = st.env[l]
                st.events.append(("loop", self.T(bb), carried))
                self._emit(st)
                return
            st.visited = st.visited + (bb,)
            if bb in self.loop_assigned and st.visited.count(bb) == 1:
                st.events.append(("head", self.T(bb)))
                # loop header: locals carried round the loop are unknown here, not their initial value
                for l in self.loop_assigned[bb]:
                    if l in st.env:
                        st.env[l] = ("phi", self.T(bb), l, b.local_name(l), st.env[l])
                for m in [m for m in st.mem if root_local(m) in self.loop_assigned[bb]]:
                    del st.mem[m]
            if self.stop_at and bb in self.stop_at:
                st.events.append(("stop", self.T(bb)))
                self._emit(st)
                return
            blk = b.blocks[bb]
            for s in blk["stmts"]:
                if "setdiscr" in s:
                    continue
                val = self.rvalue(st, s["r"], bb)
                l, proj = s["p"]
                if not proj:
                    st.env[l] = val
                else:
                    addr = self.place_addr(st, s["p"])
                    root = addr
                    while root[0] == "pl":
                        root = root[1]
                    if root[0] in ("loc",) and l in st.env or root[0] == "loc":
                        # field-wise initialisation of a local: remember it
                        st.mem[addr] = val
                    else:
                        st.mem[addr] = val
                        forget(st, addr)
                        st.events.append(("store", self.T(bb), addr, val, s["s"]))
            t = blk["term"]
            k = t["k"]
            if k == "goto":
                bb = t["t"]
                continue
            if k == "drop":
                bb = t["t"]
                continue
            if k == "assert":
                cond = None
                if "index" in t:
                    cond = ("bounds", self.operand(st, t["index"]), self.operand(st, t["len"]))
                elif "a" in t:
                    cond = ("sub" if t["msg"] == "Overflow:Sub" else "ovf", self.operand(st, t["a"]), self.operand(st, t["b"]))
                st.events.append(("assert", self.T(bb), t["msg"], t["s"], cond))
                bb = t["t"]
                continue
            if k == "return":
                st.events.append(("ret", self.T(bb), st.env.get(0, ("loc", 0))))
                self._emit(st)
                return
            if k in ("unreachable", "resume", "abort", "codrop"):
                st.events.append(("unreachable", self.T(bb)))
                self._emit(st)
                return
            if k == "yield":
                st.env[t["dest"][0]] = ("yield", bb)
                bb = t["t"]
                continue
            if k == "call" or k == "tailcall":
                f = self.operand(st, t["f"])
                args = tuple(self.operand(st, a) for a in t["args"])
                if f[0] == "fn":
                    path = f[1]
                    targs = f[2]
                else:
                    path = ("indirect", f)
                    targs = ""
                st.events.append(("call", self.T(bb), path, args, t["s"], targs))
                fb = fold_try_branch(path, args) if t.get("t") is not None and k == "call" else None
                if fb is None and t.get("t") is not None and k == "call" and isinstance(path, str) and len(args) == 1:
                    if path.endswith("Try>::branch"):
                        kind = "Option" if "option::Option" in path else ("Result" if "result::Result" in path else None)
                        if kind:
                            fb = ("try", args[0], kind)
                    elif path.endswith("::from_residual") and args[0][0] == "agg" and args[0][2] == "None" and "option::Option" in path.split(" as ")[0]:
                        fb = args[0]
                    elif path.endswith("::from_residual") and args[0][0] == "agg" and args[0][2] == "Err" and "result::Result" in path.split(" as ")[0]:
                        # `Err(e)?` / the error exit of `x?`: Err(From::from(e))
                        fb = ("agg", "std::result::Result", "Err", (("call", self.T(bb), "<T as std::convert::From<T>>::from", (args[0][3][0],)),), 1)
                if fb is not None:
                    dl, dproj = t["dest"]
                    if not dproj:
                        st.env[dl] = fb
                    else:
                        st.mem[self.place_addr(st, t["dest"])] = fb
                    bb = t["t"]
                    continue
                if k == "call" and t.get("t") is not None and isinstance(path, str) and self.model_std(st, bb, path, args, t):
                    return
                callee = None
                if self.inline is not None and isinstance(path, str) and self.depth < 2 and k == "call" and t.get("t") is not None:
                    callee = self.inline(path)
                    if callee is not None and callee.path == self.b.path:
                        callee = None
                if callee is not None:
                    sub = Walker(callee, max_paths=64 if not callee_has_loops(callee) else 600, inline=self.inline, depth=self.depth + 1, pfx=self.T(bb))
                    if True:  # helpers with loops too: their back-edge paths end the caller's path like a back edge of its own
                        init = State()
                        for ai, a in enumerate(args):
                            init.env[ai + 1] = a
                        init.mem = dict(st.mem)
                        init.known = dict(st.known)
                        init.shared = st.shared
                        try:
                            results = sub.run_from(init)
                        except PathBudget:
                            results = None
                        if results is not None and all(ev and ev[-1][0] in ("ret", "diverge", "unreachable", "loop") for ev, _ in results):
                            for ev, fin in results:
                                s2 = st.fork()
                                s2.events.extend(ev[:-1])
                                s2.mem = dict(fin.mem)
                                s2.known = dict(fin.known)
                                s2.shared = fin.shared
                                last = ev[-1]
                                if last[0] != "ret":
                                    s2.events.append(last)
                                    self._emit(s2)
                                    continue
                                dl, dproj = t["dest"]
                                if not dproj:
                                    s2.env[dl] = last[2]
                                else:
                                    s2.mem[self.place_addr(s2, t["dest"])] = last[2]
                                self._walk(t["t"], s2)
                            return
                # a callee that receives `&mut X` may change X: forget what we know below X
                for a in args:
                    if a[0] == "ref" and a[1] in st.shared:
                        continue  # `&T`: the callee can only read
                    if a[0] == "ref":
                        kill = [m for m in st.mem if m == a[1] or is_prefix(a[1], m)]
                        for m in kill:
                            del st.mem[m]
                        forget(st, a[1])
                if k == "tailcall" or t.get("t") is None:
                    st.events.append(("diverge", self.T(bb)))
                    self._emit(st)
                    return
                dl, dproj = t["dest"]
                res = ("call", self.T(bb), path, args)
                if not dproj:
                    st.env[dl] = res
                else:
                    st.mem[self.place_addr(st, t["dest"])] = res
                bb = t["t"]
                continue
            if k == "switch":
                term = self.operand(st, t["o"])
                vals = t["vals"]
                if term[0] == "discr" and term[1][0] == "try":
                    # ControlFlow::{Continue = 0, Break = 1} of `x?`: decide on x itself (Option: None = 0, Some = 1; Result: Ok = 0, Err = 1)
                    if term[1][2] == "Option":
                        vals = [(1 - v, tb) for v, tb in vals]
                    term = ("discr", term[1][1], 2, "std::option::Option" if term[1][2] == "Option" else "std::result::Result")
                listed = tuple(v for v, _ in vals)
                cv = switch_const(term)
                if cv is None and term[0] == "discr" and term[1][0] == "call" and isinstance(term[1][2], str) and term[1][2].endswith("Future>::poll"):
                    cv = 0  # Poll::Ready: the Pending arm only yields and polls the same future again
                if cv is None and self.decide is not None:
                    cv = self.decide(term, listed)
                if cv is not None:
                    tgt = None
                    for v, tb in vals:
                        if v == cv:
                            tgt = tb
                    if tgt is None:
                        tgt = t["else"]
                    if cv.__class__ is not bool and self.decide is not None and switch_const(term) is None:
                        st.events.append(("switch", self.T(bb), term, cv, listed))
                    bb = tgt
                    continue
                # a scrutinee already decided on this path is not forked again (repeated `matches!`, nested matches)
                kn = st.known.get(term)
                if kn is not None and kn[0] == "eq":
                    tgt = None
                    for v, tb in vals:
                        if v == kn[1]:
                            tgt = tb
                    st.events.append(("switch", self.T(bb), term, kn[1] if tgt is not None else "else", listed))
                    bb = tgt if tgt is not None else t["else"]
                    continue
                excluded = kn[1] if kn is not None else frozenset()
                # fork
                for v, tb in vals:
                    if v in excluded:
                        continue
                    s2 = st.fork()
                    s2.events.append(("switch", self.T(bb), term, v, listed))
                    s2.known[term] = ("eq", v)
                    self._walk(tb, s2)
                nlisted = set(listed) | set(excluded)
                if term[0] == "discr" and len(term) > 2 and term[2] > 0 and term[2] == len(nlisted):
                    return  # every variant is listed (or was excluded earlier): the otherwise edge is infeasible
                if term[0] == "c" or (isinstance(t.get("ty"), str) and t["ty"] == "bool" and len(nlisted) >= 2):
                    return
                s2 = st
                s2.events.append(("switch", self.T(bb), term, "else", listed))
                s2.known[term] = ("ne", frozenset(nlisted))
                bb = t["else"]
                # infeasible otherwise-arms end in `unreachable` and are dropped by callers.
                continue
            raise RuntimeError("unknown terminator " + k)


def callee_has_loops(body):
    try:
        return bool(Walker(body, max_paths=1).loop_assigned)
    except Exception:
        return True


def fold_try_branch(path, args):
    """`Try::branch` of a value whose variant is known on this path (an aggregate built on the path, or the
    `from_residual(..)` an inlined helper returned): the ControlFlow it yields is known too."""
    if not isinstance(path, str) or not path.endswith("Try>::branch") or len(args) != 1:
        return None
    a = args[0]
    if a[0] == "agg" and a[2] in ("Ok", "Some"):
        return ("agg", "core::ops::ControlFlow", "Continue", tuple(a[3][:1]), 0)
    if a[0] == "agg" and a[2] in ("Err", "None"):
        return ("agg", "core::ops::ControlFlow", "Break", (a,), 1)
    if a[0] == "call" and isinstance(a[2], str) and a[2].endswith("FromResidual>::from_residual") or (a[0] == "call" and isinstance(a[2], str) and "FromResidual" in a[2] and a[2].endswith("from_residual")):
        return ("agg", "core::ops::ControlFlow", "Break", tuple(a[3][:1]), 1)
    return None


def forget(st, place):
    """Decisions about values read from `place` (or below/above it) no longer hold after a write to it."""
    if not st.known:
        return
    root = place
    while root[0] in ("pl", "ref"):
        root = root[1]
    if root[0] not in ("arg", "loc", "phi", "call"):
        return
    dead = []
    for term in st.known:
        for sub in subterms(term):
            if sub[0] == "pl":
                r = sub
                while r[0] in ("pl", "ref"):
                    r = r[1]
                if r == root and (sub == place or is_prefix(place, sub) or is_prefix(sub, place) or place[0] != "pl"):
                    dead.append(term)
                    break
            elif sub == root and place[0] != "pl":
                dead.append(term)
                break
    for d in dead:
        st.known.pop(d, None)


def root_local(t):
    while t[0] in ("pl", "ref"):
        t = t[1]
    return t[1] if t[0] in ("loc", "phi") else None


def is_prefix(a, m):
    """place term a is a prefix of place term m"""
    if m[0] != "pl":
        return False
    if m[1] == a:
        return True
    if a[0] == "pl" and m[1] == a[1] and m[2][: len(a[2])] == a[2]:
        return True
    return False


def refine(st, term, v):
    """After taking `switch term == v`: nothing to record beyond the event (terms are
    immutable); kept as a hook."""
    return


def switch_const(term):
    if term[0] == "c":
        v = term[2]
        if isinstance(v, bool):
            return 1 if v else 0
        if isinstance(v, int):
            return v
        if isinstance(v, tuple) and v[0] == "variant":
            return v[3] if len(v) > 3 and v[3] is not None else None
    return None


CMP = {
    "Eq": lambda a, b: a == b,
    "Ne": lambda a, b: a != b,
    "Lt": lambda a, b: a < b,
    "Le": lambda a, b: a <= b,
    "Gt": lambda a, b: a > b,
    "Ge": lambda a, b: a >= b,
}


def fold_bin(op, a, b):
    if a[0] == "c" and b[0] == "c" and isinstance(a[2], int) and isinstance(b[2], int) and not isinstance(a[2], bool) and not isinstance(b[2], bool):
        if op in CMP:
            return ("c", "bool", CMP[op](a[2], b[2]))
        if op in ("Add", "AddWithOverflow", "AddUnchecked"):
            return ("c", a[1], a[2] + b[2])
        if op in ("Sub", "SubWithOverflow", "SubUnchecked"):
            return ("c", a[1], a[2] - b[2])
    # canonical comparisons: `a < b` is `b > a`, `a <= b` is `b >= a`; constants on the right of ==/!=
    if op == "Lt":
        return ("bin", "Gt", b, a)
    if op == "Le":
        return ("bin", "Ge", b, a)
    if op in ("Eq", "Ne") and a[0] == "c" and b[0] != "c":
        return ("bin", op, b, a)
    return ("bin", op, a, b)


# ---------------------------------------------------------------- pretty printing

def bbid(x):
    """printable block id: inlined bodies carry ("in", prefix, bb)"""
    while isinstance(x, tuple):
        x = x[-1]
    return x if isinstance(x, int) else 0


def show(t, depth=0):
    if not isinstance(t, tuple):
        return str(t)
    k = t[0]
    if k == "c":
        v = t[2]
        if isinstance(v, tuple) and v[0] == "variant":
            return "%s::%s" % (v[1].split("::")[-1], v[2])
        return str(v)
    if k == "fn":
        return "fn " + short(t[1])
    if k == "arg":
        return t[2]
    if k == "loc":
        return "_%d" % t[1]
    if k == "phi":
        return "%s'" % t[3]
    if k == "pl":
        s = show(t[1], depth + 1)
        for e in t[2]:
            if e == "*":
                s = "(*%s)" % s if not s.isidentifier() else s
            elif e[0] == "f":
                s = "%s.%s" % (s, e[2])
            elif e[0] == "d":
                s = "%s as %s" % (s, e[2])
            elif e[0] == "ix":
                s = "%s[_%d]" % (s, e[1])
            elif e[0] == "ci":
                s = "%s[%s%d]" % (s, "-" if e[2] else "", e[1])
            elif e[0] == "sub":
                s = "%s[%d..%s%d]" % (s, e[1], "-" if e[3] else "", e[2])
            else:
                s = "%s.?" % s
        return s
    if k in ("try", "tryc", "tryb"):
        return show(t[1], depth) + "?"
    if k == "ref":
        return "&" + show(t[1], depth + 1)
    if k == "call":
        if isinstance(t[2], str) and t[2].endswith("Try>::branch") and len(t[3]) == 1:
            return "%s(%s)@%d" % (short(t[2]), show(t[3][0], depth), bbid(t[1]))  # `x?` is not a nesting level
        if depth > 4:
            return "%s(..)@%d" % (short(t[2]), bbid(t[1]))
        return "%s(%s)@%d" % (short(t[2]), ", ".join(show(a, depth + 1) for a in t[3]), bbid(t[1]))
    if k == "discr":
        return "discr(%s)" % show(t[1], depth + 1)
    if k == "bin":
        return "(%s %s %s)" % (show(t[2], depth + 1), t[1], show(t[3], depth + 1))
    if k == "un":
        return "%s(%s)" % (t[1], show(t[2], depth + 1))
    if k == "len":
        return "len(%s)" % show(t[1], depth + 1)
    if k == "cast":
        return "(%s as %s)" % (show(t[1], depth + 1), t[2])
    if k == "agg":
        name = "%s::%s" % (t[1].split("::")[-1], t[2])
        if not t[3]:
            return name
        return "%s(%s)" % (name, ", ".join(show(a, depth + 1) for a in t[3]))
    if k == "tuple":
        return "(%s)" % ", ".join(show(a, depth + 1) for a in t[1])
    if k == "array":
        return "[%s]" % ", ".join(show(a, depth + 1) for a in t[1])
    if k == "closure":
        return "closure<%s>" % short(t[1])
    if k == "yield":
        return "resume@%d" % t[1]
    if k == "await":
        return "%s.await" % show(t[1], depth + 1)
    return str(t)


def short(p):
    if isinstance(p, tuple):
        return "indirect(%s)" % show(p[1])
    p = strip_generics(p)
    # keep the last two path segments, strip `<impl ..>` qualifiers
    p = re.sub(r"<impl [^>]*(?:<[^>]*>[^>]*)*>::", "", p)
    parts = p.split("::")
    return "::".join(parts[-2:]) if len(parts) > 1 else p


def subterms(t):
    """All sub-terms of a term (pre-order)."""
    yield t
    k = t[0]
    if k == "pl":
        yield from subterms(t[1])
    elif k in ("ref", "discr", "len", "await", "try", "tryc", "tryb"):
        yield from subterms(t[1])
    elif k == "phi":
        if len(t) > 4 and isinstance(t[4], tuple):
            yield from subterms(t[4])
    elif k == "call":
        for a in t[3]:
            yield from subterms(a)
    elif k == "bin":
        yield from subterms(t[2])
        yield from subterms(t[3])
    elif k == "un":
        yield from subterms(t[2])
    elif k == "cast":
        yield from subterms(t[1])
    elif k == "agg":
        for a in t[3]:
            yield from subterms(a)
    elif k in ("tuple", "array"):
        for a in t[1]:
            yield from subterms(a)
    elif k == "closure":
        for a in t[2]:
            yield from subterms(a)
    elif k == "repeat":
        yield from subterms(t[1])


def mentions_call(t, name_suffix):
    for s in subterms(t):
        if s[0] == "call" and isinstance(s[2], str) and (s[2] == name_suffix or s[2].endswith("::" + name_suffix)):
            return True
    return False


def walk(body, **kw):
    return Walker(body, **kw).run()
