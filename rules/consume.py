"""consumed = advanced = copied + delimiter: path summaries of the XmlSource helpers (C02 R2, C08 R2)."""
from engine import *
from facts import strip_generics, callee_of
import sym

HELPERS = ("read_text", "read_with", "read_bang_element", "skip_whitespace")


def unawait(t):
    return t[1] if t[0] == "await" else t


def addends(t):
    """(sorted atomic addends as strings, constant sum) of a sum term; casts removed"""
    t = strip_wrappers(t)
    if t[0] == "cast":
        return addends(t[1])
    if t[0] == "bin" and t[1] == "Add":
        a, ca = addends(t[2])
        b, cb = addends(t[3])
        return sorted(a + b), ca + cb
    if t[0] == "c" and isinstance(t[2], int) and not isinstance(t[2], bool):
        return [], t[2]
    return [norm(t)], 0


def norm(t):
    import re
    s = sym.show(strip_wrappers(t), 1)
    return re.sub(r"[&*() ]", "", s)


def slice_impl(ctx, rule, F, cfg):
    n = 0
    for h in HELPERS:
        bs = [b for b in F.bodies_with("slice_reader", "XmlSource", end=h)]
        for b in bs:
            n += 1
            for p in ctx.paths(b):
                if ends(p) != "ret":
                    continue
                pos = [e for e in p if e[0] == "store" and e[2][0] == "pl" and e[2][1][0] == "arg" and e[2][1][2] == "position"]
                slf = [e for e in p if e[0] == "store" and e[2][0] == "pl" and e[2][1][0] == "arg" and e[2][1][2] == "self" and all(x == "*" for x in e[2][2])]
                r = ret_of(p)
                rv = describe_ret(r, 1)[0]
                tag = "/".join(str(x) for x in rv[:2])
                site = "slice:%s[%s]" % (h, tag)
                if not pos and not slf:
                    ctx.ob(rule, site + ":nothing", True, "nothing consumed, nothing advanced", config=cfg)
                    continue
                if len(pos) != 1:
                    ctx.ob(rule, site + ":one-advance", False, "the position is advanced %d times on one path" % len(pos), config=cfg)
                    continue
                v = pos[0][3]
                ok = v[0] == "bin" and v[1] == "Add" and strip_wrappers(v[2]) == strip_wrappers(pos[0][2])
                amount = addends(v[3]) if ok else None
                eof = rv[:1] == ("Err",) or "UpToEof" in rv
                if slf and ok:
                    # the amount must be computed from the slice as it was on entry: a call that reads `self` after
                    # `*self` was overwritten measures the remainder, not what was consumed
                    first_store = min(i for i, e in enumerate(p) if e is slf[0])
                    late = [c for i, c in enumerate(p) if i > first_store and c[0] == "call" and any(has_subterm(a, lambda s2: s2[0] == "arg" and s2[2] == "self") for a in c[3])
                            and has_subterm(v[3], lambda s2: s2[0] == "call" and s2[1] == c[1] and s2[2] == c[2])]
                    ctx.ob(rule, site + ":measured-before-cut", not late, "the amount added to the position is computed from the slice before it is cut (calls on the already-cut slice: %s)" % [sym.short(c[2]) for c in late], loc=b.loc(pos[0][4]), config=cfg)
                if slf:
                    newv = slf[-1][3]
                    cut = None
                    for s in sym.subterms(newv):
                        if call_is(s, "index") and s[3][1][0] == "agg" and s[3][1][2] == "RangeFrom":
                            cut = addends(s[3][1][3][0])
                            # `let (head, rest) = self.split_at(k); *self = &rest[c..]`: k + c bytes are cut
                            base = strip_wrappers(s[3][0])
                            if base[0] == "pl" and call_is(base[1], "split_at") and fields_of(base)[-1:] == ("1",):
                                k = addends(base[1][3][1])
                                cut = (sorted(cut[0] + k[0]), cut[1] + k[1])
                            break  # outermost
                    if cut is None:
                        nv = strip_wrappers(newv)
                        if nv[0] == "pl" and call_is(nv[1], "split_at") and fields_of(nv)[-1:] == ("1",):
                            cut = addends(nv[1][3][1])
                    empty = strip_wrappers(newv)[0] == "array" and not strip_wrappers(newv)[1] or (strip_wrappers(newv)[0] == "c" and "[]" in str(strip_wrappers(newv)[2]))
                    if cut is not None:
                        ctx.ob(rule, site + ":consumed=advanced", ok and amount == cut, "bytes cut from the slice %s must equal the amount added to the position %s" % (cut, amount), loc=b.loc(pos[0][4]), config=cfg)
                    else:
                        islen = ok and amount is not None and amount[1] == 0 and len(amount[0]) == 1 and "len" in amount[0][0]
                        ctx.ob(rule, site + ":consumed=advanced", islen and empty, "at end of input the whole rest is consumed: position += len, slice becomes empty", loc=b.loc(pos[0][4]), config=cfg)
                else:
                    islen = ok and amount is not None and amount[1] == 0 and len(amount[0]) == 1 and "len" in amount[0][0]
                    ctx.ob(rule, site + ":consumed=advanced", islen and eof, "only the EOF error exits may advance the position (by the remaining length) without cutting the slice (the reader is Done afterwards)", loc=b.loc(pos[0][4]), config=cfg)
                # returned bytes exclude the delimiter: self[..i] with i+1 consumed
                if rv[:1] == ("Ok",) or "UpToMarkup" in rv:
                    rt = [s for s in sym.subterms(r) if call_is(s, "index") and s[3][1][0] == "agg" and s[3][1][2] == "RangeTo"]
                    sa = [s for s in sym.subterms(r) if s[0] == "pl" and call_is(s[1], "split_at") and fields_of(s)[-1:] == ("0",)]
                    if (rt or sa) and amount is not None and h in ("read_text", "read_with"):
                        upto = addends(rt[0][3][1][3][0]) if rt else addends(sa[0][1][3][1])
                        ctx.ob(rule, site + ":delimiter-excluded", amount == (upto[0], upto[1] + 1), "returned bytes are [..i] while i+1 bytes (the delimiter too) are consumed: returned upto %s, consumed %s" % (upto, amount), config=cfg)
    ctx.floor(rule, "slice source helpers", n, 4, config=cfg)


def buffered_impl(ctx, rule, F, cfg):
    bodies = []
    for h in HELPERS:
        for b in F.bodies_with("buffered_reader", "XmlSource", end=h):
            bodies.append((h, "sync", b))
        for b in F.bodies_matching(r"reader::async_tokio::TokioAdapter::%s::\{closure#0\}$" % h):
            bodies.append((h, "async", b))
    for h, kind, b in bodies:
        nret = 0
        allp = [p for p in ctx.paths(b, max_paths=60000) if ends(p) in ("ret", "loop")]
        # running counters: loop-carried integers whose update is `own previous value + something` on a path that consumed input
        counters = set()
        for p in allp:
            if p[-1][0] == "loop" and any(c[0] == "call" and name_is(c[2], "consume") for c in p):
                for nm, v in p[-1][2].items():
                    if v[0] == "bin" and v[1] == "Add" and (nm + "'") in addends(v)[0]:
                        counters.add(nm)
        for p in allp:
            # split at the loop header
            hi = [i for i, e in enumerate(p) if e[0] == "head"]
            pre = p[: hi[0]] if hi else []
            body = p[hi[0]:] if hi else p
            site = "buffered[%s]:%s" % (kind, h)
            cons_pre = [c[3][1] for c in pre if c[0] == "call" and name_is(c[2], "consume")]
            # pre-loop: read counter initial value = bytes consumed before the loop
            if hi and (cons_pre or h == "read_bang_element"):
                s0 = sum(addends(x)[1] for x in cons_pre)
                # the initial value of `read` is visible as the constant part on first-iteration exits; checked through the loop summary below
                pushed = [c for c in pre if c[0] == "call" and name_is(c[2], "Vec::push")]
                ctx.ob(rule, site + ":pre-loop", s0 == 1 and len(pushed) == 1 and pushed[0][3][1] == ("c", "u8", 33) if h == "read_bang_element" else s0 == 0,
                       "before the loop exactly the '!' is consumed and copied (consumed %d)" % s0, config=cfg)
            cons = [c[3][1] for c in body if c[0] == "call" and name_is(c[2], "consume")]
            ca = ([], 0)
            for x in cons:
                a = addends(x)
                ca = (sorted(ca[0] + a[0]), ca[1] + a[1])
            pos = [e for e in body if e[0] == "store" and e[2][0] == "pl" and root_of(e[2])[0] in ("arg",) and (root_of(e[2])[2] == "position" or upvar_of(b, e[2]) == "position")]
            copied = [c for c in body if c[0] == "call" and name_is(c[2], "extend_from_slice")]
            if p[-1][0] == "loop":
                mine = [nm for nm in sorted(counters) if nm in p[-1][2]]
                if mine:
                    for nm in mine:
                        got = addends(p[-1][2][nm])
                        exp = (sorted([nm + "'"] + ca[0]), ca[1])
                        ctx.ob(rule, site + ":loop:%s+=consumed" % nm, got == exp, "round the loop the running count grows by exactly what was consumed: %s = %s, consumed %s" % (nm, got, ca), config=cfg)
                elif cons:
                    # no running counter: the position must be advanced directly
                    ok = len(pos) == 1 and addends(pos[0][3][3]) == ca
                    ctx.ob(rule, site + ":loop:advanced=consumed", ok, "without a running count the position is advanced by what was consumed in this iteration", config=cfg)
                continue
            nret += 1
            r = ret_of(p)
            rv = describe_ret(r, 1)[0]
            tag = "/".join(str(x) for x in rv[:2])
            if rv[:1] == ("Err",) and has_subterm(r, lambda s: s[0] == "call" and name_is(s[2], "from_residual")):
                continue
            if (r[0] == "call" and name_is(r[2], "from_residual")) or is_error_exit(p):
                continue  # `?` on peek_one in read_bang_element: error before anything is accounted (documented: position not updated)
            if len(pos) > 1:
                ctx.ob(rule, site + "[%s]:one-advance" % tag, False, "the position is advanced %d times on one exit" % len(pos), config=cfg)
                continue
            if not pos:
                zero0 = {e[2][2][3] for e in body if e[0] == "switch" and e[2][0] == "bin" and e[2][1] == "Eq" and e[2][2][0] == "phi" and e[2][3][0] == "c" and e[2][3][2] == 0 and e[3] != 0}
                owed = sorted(c for c in counters if c not in zero0) if hi else []
                ctx.ob(rule, site + "[%s]:advance" % tag, not cons and not owed, "an exit that consumed input, or that leaves a loop which kept a running count of consumed bytes, must advance the position (consumed %s, running counters not yet added %s)" % (ca, owed), config=cfg)
                continue
            v = pos[0][3]
            ok = v[0] == "bin" and v[1] == "Add"
            amount = addends(v[3]) if ok else None
            # a helper that keeps a running count of what earlier iterations consumed must add it on every exit inside the loop
            # (unless the exit is guarded by `count == 0`)
            zero = {e[2][2][3] for e in body if e[0] == "switch" and e[2][0] == "bin" and e[2][1] == "Eq" and e[2][2][0] == "phi" and e[2][3][0] == "c" and e[2][3][2] == 0 and e[3] != 0}
            exp = (sorted(([c + "'" for c in counters if c not in zero] if hi else []) + ca[0]), ca[1])
            ctx.ob(rule, site + "[%s]:advanced=read+consumed" % tag, ok and amount == exp,
                   "position += (bytes counted so far) + (bytes consumed on this exit): advanced %s, expected %s (running counters %s)" % (amount, exp, sorted(counters)), loc=b.loc(pos[0][4]), config=cfg)
            # copied bytes: found -> available[..i] with i+1 consumed; not found -> all of available
            if copied and ("Ok" in rv or "UpToMarkup" in rv) and h in ("read_text", "read_with"):
                a = copied[-1][3][1]
                rt = [s for s in sym.subterms(a) if call_is(s, "index") and s[3][1][0] == "agg" and s[3][1][2] == "RangeTo"]
                if rt:
                    upto = addends(rt[0][3][1][3][0])
                    ctx.ob(rule, site + "[%s]:delimiter-excluded" % tag, ca == (upto[0], upto[1] + 1), "copied available[..i] and consumed i+1 (the delimiter is consumed, not copied): copied upto %s consumed %s" % (upto, ca), config=cfg)
                else:
                    ctx.ob(rule, site + "[%s]:delimiter-excluded" % tag, False, "the copied slice is not available[..i]", config=cfg)
        ctx.floor(rule, "exits of buffered[%s]:%s" % (kind, h), nret, 1, config=cfg)
    ctx.floor(rule, "buffered source helpers", len(bodies), 8 if "async-tokio" in F.features else 4, config=cfg)


def bang_parse_contract(ctx, rule, F, cfg):
    """BangType::parse returns (chunk[..i] | [], i+1): content excludes '>' and the used count includes it"""
    b = ctx.body(F, "reader::BangType::parse", rule)
    if b is None:
        return
    n = 0
    for p in ctx.paths(b, max_paths=60000):
        r = ret_of(p)
        if r is None or r[0] != "agg" or r[2] != "Some":
            continue
        n += 1
        tup = r[3][0]
        content, used = tup[1][0], tup[1][1]
        u = addends(used)
        rt = [s for s in sym.subterms(content) if call_is(s, "index") and s[3][1][0] == "agg" and s[3][1][2] == "RangeTo"]
        if rt:
            c = addends(rt[0][3][1][3][0])
            ok = u == (c[0], c[1] + 1)
        else:
            c = "[]"
            # empty content only when the '>' is the first byte of the chunk (i == 0)
            ok = u[1] == 1 and len(u[0]) == 1 and any(e[0] == "switch" and e[2][0] == "bin" and e[2][1] == "Eq" and e[2][3] == ("c", "usize", 0) and e[3] != 0 for e in p)
        ctx.ob(rule, "BangType::parse:returns(content=%s)" % ("chunk[..i]" if rt else "[]"), ok, "parse returns the chunk up to the '>' and a used count that includes it: content upto %s, used %s" % (c, u), config=cfg)
    ctx.floor(rule, "Some exits of BangType::parse", n, 7, config=cfg)


def refill_completeness(ctx, rule, F, cfg):
    """A buffered helper may only stop at a chunk boundary for a reason that the slice implementation
    would also have: terminator found, or end of input.  A chunk that was scanned to its end without
    finding the terminator (or, for skip_whitespace, that was consumed as whitespace) must lead back to
    the refill, never to a return."""
    scans = {"read_text": "memchr", "read_with": "feed", "read_bang_element": "parse"}
    bodies = []
    for h in list(scans) + ["skip_whitespace"]:
        for b in F.bodies_with("buffered_reader", "XmlSource", end=h):
            bodies.append((h, "sync", b))
        for b in F.bodies_matching(r"reader::async_tokio::TokioAdapter::%s::\{closure#0\}$" % h):
            bodies.append((h, "async", b))
    for h, kind, b in bodies:
        site = "buffered[%s]:%s" % (kind, h)
        n_nf = 0
        bad = []
        for p in ctx.paths(b, max_paths=60000):
            if ends(p) not in ("ret", "loop"):
                continue
            if h == "skip_whitespace":
                cons = [c for c in calls(p) if name_is(c[2], "consume")]
                if cons:
                    n_nf += 1
                    if ends(p) != "loop":
                        bad.append("returns after consuming whitespace of one chunk")
                elif ends(p) == "ret":
                    r = ret_of(p)
                    if describe_ret(r, 0)[0][:1] == ("Ok",):
                        # nothing consumed: the chunk is empty or starts with a non-whitespace byte
                        gt = [e for e in p if e[0] == "switch" and e[2][0] == "bin" and e[2][1] in ("Gt", "Eq", "Ne")]
                        if not gt:
                            bad.append("Ok exit without testing the number of skipped bytes")
                continue
            d = [e for e in p if e[0] == "switch" and e[2][0] == "discr" and e[2][1][0] == "call" and name_is(e[2][1][2], scans[h])]
            if not d:
                continue
            notfound = d[-1][3] == 0 if isinstance(d[-1][3], int) else True
            if notfound:
                n_nf += 1
                if ends(p) != "loop":
                    bad.append("returns %s although the scanner found no terminator in this chunk" % sym.show(ret_of(p), 2))
                else:
                    hd = [i for i, e in enumerate(p) if e[0] == "head"]
                    seg = p[hd[0]:] if hd else p
                    copied = [c for c in calls(seg) if name_is(c[2], "extend_from_slice")]
                    cons = [c for c in calls(seg) if name_is(c[2], "consume")]
                    if len(copied) != 1 or len(cons) != 1 or not (call_is(strip_wrappers(cons[0][3][1]), "len") or has_subterm(cons[0][3][1], lambda s: call_is(s, "len"))):
                        bad.append("the whole chunk must be copied and consumed before the next refill")
        ctx.ob(rule, site + ":chunk-boundary-is-not-an-exit", n_nf >= 1 and not bad,
               "a chunk scanned to its end without a terminator (for skip_whitespace: consumed as whitespace) must lead back to the refill, as the slice implementation sees the whole input at once: %d such paths, problems %s" % (n_nf, sorted(set(bad))), config=cfg)


def check(ctx, rule):
    for cfg, F in ctx.facts.items():
        slice_impl(ctx, rule, F, cfg)
        buffered_impl(ctx, rule, F, cfg)
        refill_completeness(ctx, rule, F, cfg)
        bang_parse_contract(ctx, rule, F, cfg)
