"""Debug helper: print bodies / symbolic paths.  python3 dbg.py <facts.json> <regex> [--paths|--mir]"""
import sys, json
import facts, sym


def show_event(b, e):
    k = e[0]
    if k == "switch":
        return "  ? %s == %s   (of %s)" % (sym.show(e[2]), e[3], list(e[4]))
    if k == "call":
        return "  call %s(%s)  @bb%d %s" % (sym.short(e[2]), ", ".join(sym.show(a) for a in e[3]), e[1], b.loc(e[4]))
    if k == "store":
        return "  %s := %s   @bb%d" % (sym.show(e[2]), sym.show(e[3]), e[1])
    if k == "assert":
        return "  assert %s" % e[2]
    if k == "ret":
        return "  return %s" % sym.show(e[2])
    return "  " + str(e)


def main():
    f = facts.Facts(sys.argv[1])
    for b in f.bodies_matching(sys.argv[2]):
        print("==", b.path, "blocks", len(b.blocks))
        if "--mir" in sys.argv:
            for i, blk in enumerate(b.blocks):
                print(" bb%d%s" % (i, " (cleanup)" if blk["cleanup"] else ""))
                for s in blk["stmts"]:
                    print("    ", json.dumps(s)[:300])
                print("    ->", json.dumps(blk["term"])[:400])
        if "--paths" in sys.argv:
            try:
                ps = sym.walk(b)
            except sym.PathBudget as e:
                print("  budget:", e)
                continue
            print("  paths:", len(ps))
            for i, p in enumerate(ps[:40]):
                print(" path", i)
                for e in p:
                    print(show_event(b, e))


if __name__ == "__main__":
    main()


def summary(factsfile, regex, maxw=170):
    f = facts.Facts(factsfile)
    for b in f.bodies_matching(regex):
        print("==", b.path)
        for p in sym.walk(b, max_paths=100000):
            ds = ["%s=%s" % (sym.show(e[2], 3)[:60], e[3]) for e in p if e[0] == "switch"]
            cs = [sym.short(e[2]).split("::")[-1] for e in p if e[0] == "call"]
            st = ["%s:=%s" % (sym.show(e[2], 3), sym.show(e[3], 3)[:50]) for e in p if e[0] == "store"]
            last = p[-1]
            end = sym.show(last[2], 3)[:maxw] if last[0] == "ret" else str(last[:2])
            print(" *", "; ".join(ds)[:400]); print("     calls:", " ".join(cs)[:300]); print("     stores:", "; ".join(st)[:300]); print("     end:", end)


if __name__ == "__main__" and "--summary" in sys.argv:
    pass
