"""Panic-site audit shared by C03 (reader core) and C07 (deserializer).

Every panic-capable construct of the audited bodies is enumerated from MIR:
  * Assert terminators (BoundsCheck, Overflow:*, DivisionByZero, ...)
  * calls of core::panicking::* (panic!/unreachable!/assert*!), Option/Result::{unwrap,expect},
    range indexing of slices/str/Vec, split_at, split_off, copy_from_slice, ...
and each site must be discharged on every path through it by a local argument, or be one of the
audited single-site exemptions (function + kind + operand shape, never a line number)."""
import re

from engine import *
from facts import strip_generics, callee_of
import sym

PANIC_CALLS = ("unwrap", "expect", "unwrap_err", "expect_err")
INDEX_CALLS = ("index", "index_mut")
SPLIT_CALLS = ("split_at", "split_at_mut", "split_off", "copy_from_slice", "swap_remove", "remove", "drain")  # split_first / split_last return Option and never panic
SEARCH = ("memchr", "memchr2", "memchr3", "memrchr", "position", "rposition", "find", "rfind", "next", "name_len", "iter_position", "enumerate")


def is_panicking(path):
    return isinstance(path, str) and ("core::panicking::" in path or path.startswith("std::rt::begin_panic") or "panic_fmt" in path or path.endswith("::panic_display") or "::unreachable_display" in path)


def body_file(b):
    return b.span(b.j["span"])["root"].rsplit(":", 2)[0]


def audited_bodies(F, prefixes, exclude=()):
    """Bodies whose source file path starts with one of the prefixes (src/reader/, src/name.rs, ...)."""
    out = []
    for b in F.bodies:
        bp = strip_generics(b.path)
        f = body_file(b)
        if not any(f.startswith(x) for x in prefixes):
            continue
        if any(x in bp for x in exclude):
            continue
        if is_derive(b) or b.j["kind"].startswith("Const") or b.j["kind"] == "AnonConst":
            continue
        if "utils::Fountain" in bp:
            continue  # test helper (infinite byte source), not part of the reader
        if re.search(r"as std::fmt::(Debug|Display)>::fmt", bp) or bp.endswith("Error>::source"):
            continue
        out.append(b)
    return out


def site_sites(body):
    """Raw enumeration (block-level, before path analysis): [(bb, kind, descr)]"""
    out = []
    reach = body.reachable()
    for i, blk in enumerate(body.blocks):
        if i not in reach:
            continue
        t = blk["term"]
        if t["k"] == "assert":
            out.append((i, "assert:" + t["msg"], t["s"]))
        elif t["k"] == "call":
            d, r = callee_of(t)
            if d is None:
                continue
            nm = strip_generics(r or d)
            if is_panicking(nm) or is_panicking(d):
                out.append((i, "panic", t["s"]))
            elif name_is(nm, *PANIC_CALLS) and ("Option" in nm or "Result" in nm):
                out.append((i, "call:" + nm.split("::")[-1], t["s"]))
            elif name_is(d, *INDEX_CALLS) and range_index(t):
                out.append((i, "index-range", t["s"]))
            elif name_is(nm, *SPLIT_CALLS) and ("slice" in nm or "str" in nm or "Vec" in nm or "VecDeque" in nm):
                out.append((i, "call:" + nm.split("::")[-1], t["s"]))
    return out


def range_index(t):
    fa = t["f"]["k"].get("fnargs", "")
    return "Range" in fa


def macro_of(body, sp):
    return [x.split(":", 1)[1] for x in body.span(sp)["bt"] if x.startswith("Bang:")]


ANON_ARGS = [False]


def _anon(t):
    """closure bodies: parameters by position (`_2`), their names are the author's"""
    if not isinstance(t, tuple):
        return t
    if t and t[0] == "arg" and len(t) == 3 and t[1] >= 2:
        return ("arg", t[1], "_")
    return tuple(_anon(x) if isinstance(x, tuple) else x for x in t)


def shape(t, depth=2):
    """Short, line-number-free description of a term for exemption keys."""
    if ANON_ARGS[0]:
        t = _anon(t)
    s = sym.show(t, 5 - depth)
    s = re.sub(r"@\d+", "", s)
    s = re.sub(r"_\d+", "_", s)
    return norm_shape(s)[:90]


def norm_shape(s):
    """`Try>::branch(X) as Continue.0`, `X as Some.0`, `X as Ok.0` all denote the success payload of X: written `X?`"""
    prev = None
    while prev != s:
        prev = s
        s = re.sub(r"Try>::branch\(((?:[^()]|\([^()]*\))*)\) as Continue\.0", r"\1?", s)
    s = s.replace(" as Some.0", "?").replace(" as Ok.0", "?")
    # loop-carried locals are printed as name': the name of a local is not part of a site's identity
    s = re.sub(r"\b[A-Za-z_][A-Za-z0-9_]*'", "\u03c6'", s)
    return s


# ------------------------------------------------------------------ discharge arguments

def base_slice(t):
    """The slice a search/index call operates on, normalised."""
    t = strip_wrappers(t)
    if t[0] == "phi" and len(t) > 4 and t[4][0] == "call" and name_is(t[4][2], "iter", "into_iter", "memchr_iter", "memchr2_iter", "memchr3_iter", "by_ref"):
        t = strip_wrappers(t[4])
    while t[0] == "call" and name_is(t[2], "iter", "as_bytes", "as_ref", "deref", "as_slice", "by_ref", "into_iter", "as_str", "bytes"):
        t = strip_wrappers(t[3][0])
    return t


def search_origin(t):
    """If t is (derived from) the result of a search over a slice, return (slice, offset) with
    offset in {0, 1}: value < len(slice) + offset... ; else None."""
    t = strip_wrappers(t)
    if t[0] == "cast":
        return search_origin(t[1])
    if t[0] == "bin" and t[1] == "Add":
        # constant + found position (either side, nested): the bound moves by the constant
        for x, c in ((t[2], t[3]), (t[3], t[2])):
            c0 = strip_wrappers(c)
            if c0[0] == "c" and isinstance(c0[2], int) and not isinstance(c0[2], bool) and 0 <= c0[2] <= 64:
                o = search_origin(x)
                if o is not None:
                    return (o[0], o[1] + c0[2])
    if t[0] == "pl":
        # payload of Some(..) / Ok(..) of a search call
        inner = t[1]
        if inner[0] == "call" and name_is(inner[2], "feed") and len(inner[3]) == 2:
            return (base_slice(inner[3][1]), 0)  # Parser::feed returns the index of a '>' inside the fed slice (C01 R3)
        if inner[0] == "call" and name_is(inner[2], "encoding::detect_encoding") and len(inner[3]) == 1 and fields_of(t)[-1:] == ("1",):
            return (base_slice(inner[3][0]), 1)  # the number of BOM bytes to skip is the length of a prefix matched on this slice (C17 R3 table)
        if inner[0] == "call" and name_is(inner[2], "QName::index"):
            return (("pl", strip_wrappers(inner[3][0]), ("*", ("f", 0, "0", "quick_xml::name::QName"))), 0)
        if inner[0] == "call" and name_is(inner[2], "BangType::parse") and fields_of(t)[-1:] == ("1",):
            return (base_slice(inner[3][2]), 1)  # `used` = index of '>' + 1 within the chunk (C01 R3)
        if inner[0] == "call" and name_is(inner[2], "memchr", "memchr2", "memchr3", "memrchr", "position", "rposition", "find", "rfind", "next", "iter_position"):
            if name_is(inner[2], "next") or (name_is(inner[2], "find", "last", "min", "max") and "Iterator" in inner[2]):
                # items of a search iterator (`for p in memchr_iter(..)`, `memchr_iter(..).find(..)`) are positions in its haystack
                it = strip_wrappers(inner[3][0])
                if it[0] == "phi" and len(it) > 4:
                    it = strip_wrappers(it[4])  # an iterator carried round the loop is still the iterator it was created as
                while it[0] == "call" and name_is(it[2], "into_iter", "by_ref"):
                    it = strip_wrappers(it[3][0])
                if it[0] == "call" and name_is(it[2], "memchr_iter", "memchr2_iter", "memchr3_iter"):
                    return (base_slice(it[3][-1]), 0)
                # `for (i, x) in s.iter().enumerate()`: the index component of an item is a position in s
                if it[0] == "call" and name_is(it[2], "enumerate") and fields_of(t)[-1:] == ("0",) and len([x for x in t[2] if isinstance(x, tuple) and x[0] == "f"]) >= 2:
                    return (base_slice(it[3][0]), 0)
                return None
            if name_is(inner[2], "memchr", "memrchr"):
                return (base_slice(inner[3][1]), 0)
            if name_is(inner[2], "memchr2"):
                return (base_slice(inner[3][2]), 0)
            if name_is(inner[2], "memchr3"):
                return (base_slice(inner[3][3]), 0)
            return (base_slice(inner[3][0]), 0)
    if t[0] == "call" and name_is(t[2], "name_len", "len"):
        return (base_slice(t[3][0]), 1)  # <= len
    if t[0] == "call" and name_is(t[2], "count") and call_is(strip_wrappers(t[3][0]), "take_while", "filter", "skip_while"):
        return (base_slice(strip_wrappers(t[3][0])[3][0]), 1)  # number of items of an iterator over the slice: <= len
    if t[0] == "call" and name_is(t[2], "unwrap_or", "map_or") and len(t[3]) >= 2:
        a = search_origin(("pl", t[3][0], (("d", 1, "Some"), ("f", 0, "0", ""))))
        return a if a is None else (a[0], a[1] + (1 if name_is(t[2], "map_or") else 0))
    return None


class Site:
    def __init__(self, body, bb, kind, sp):
        self.body, self.bb, self.kind, self.sp = body, bb, kind, sp
        self.paths = 0
        self.args = set()
        self.undischarged = []
        self.descr = None


def analyse_body(ctx, body, max_paths=40000):
    """-> list of Site with discharge verdicts."""
    raw = site_sites(body)
    if not raw:
        return []
    sites = {bb: Site(body, bb, kind, sp) for bb, kind, sp in raw}
    try:
        paths = ctx.paths(body, max_paths=max_paths)
    except sym.PathBudget:
        for s in sites.values():
            s.undischarged.append("path budget exceeded")
        return list(sites.values())
    # a site is identified by its block; events carry the block index
    global CUR_PATHS
    CUR_PATHS = paths
    ANON_ARGS[0] = "{closure" in body.path
    for p in paths:
        for i, e in enumerate(p):
            bb = e[1] if e[0] in ("call", "assert") else None
            if bb is None or bb not in sites:
                continue
            s = sites[bb]
            # asserts and calls in the same block: match kind
            if e[0] == "assert" and not s.kind.startswith("assert"):
                continue
            if e[0] == "call" and s.kind.startswith("assert"):
                continue
            s.paths += 1
            arg = discharge(body, s, p, i, e)
            if arg is None and "{closure" in body.path:
                arg = closure_context_arg(ctx, body, s, p, i, e)
            if arg is None:
                s.undischarged.append(describe_event(e))
            else:
                s.args.add(arg)
            if s.descr is None:
                s.descr = describe_event(e)
    return list(sites.values())


ITEM_ADAPTORS = ("find", "position", "rposition", "any", "all", "filter", "take_while", "skip_while", "map", "for_each", "find_map", "filter_map", "inspect")
_CLOSURE_CTX = {}


def closure_sites(ctx, K):
    """Where the closure K is handed over in its parent: [(adaptor name, origin slice of the iterator's items or None,
    captured operands)] ; None if some use is not an item adaptor of an iterator (then nothing is known about the parameter)."""
    key = (id(K.facts), K.path)
    if key in _CLOSURE_CTX:
        return _CLOSURE_CTX[key]
    out = []
    ok = True
    parent_path = re.sub(r"::\{closure#\d+\}$", "", K.path)
    P = K.facts.by_raw.get(parent_path)
    if P is None:
        ok = False
    else:
        try:
            ppaths = ctx.paths(P, max_paths=20000)
        except Exception:
            ppaths = []
            ok = False
        seen = set()
        for p in ppaths:
            for e in p:
                if e[0] != "call":
                    continue
                cl = [a for a in e[3] if strip_wrappers(a)[0] == "closure" and strip_wrappers(a)[1] == K.path]
                if not cl or (e[1], str(e[2])) in seen:
                    continue
                seen.add((e[1], str(e[2])))
                nm = sym.short(e[2]).split("::")[-1] if isinstance(e[2], str) else "?"
                if nm in ("map", "map_or", "and_then", "map_or_else", "filter", "is_some_and") and ("option::Option" in str(e[2]) or "result::Result" in str(e[2])):
                    # closure applied to the payload of an Option / Result: the parameter is that payload
                    payload = ("pl", strip_wrappers(e[3][0]), (("d", 1, "Some"), ("f", 0, "0", "std::option::Option")))
                    o = search_origin(payload)
                    out.append((nm, None if o is None else (o[0], o[1]), strip_wrappers(cl[0])[2], payload))
                    continue
                if nm not in ITEM_ADAPTORS or "Iterator" not in str(e[2]):
                    ok = False
                    continue
                it = strip_wrappers(e[3][0])
                if it[0] == "phi" and len(it) > 4:
                    it = strip_wrappers(it[4])
                while it[0] == "call" and name_is(it[2], "into_iter", "by_ref"):
                    it = strip_wrappers(it[3][0])
                org = (base_slice(it[3][-1]), 0) if it[0] == "call" and name_is(it[2], "memchr_iter", "memchr2_iter", "memchr3_iter") else None
                out.append((nm, org, strip_wrappers(cl[0])[2]))
    _CLOSURE_CTX[key] = out if ok and out else None
    return _CLOSURE_CTX[key]


def closure_context_arg(ctx, K, site, p, i, e):
    """A closure that is only ever the predicate of a search iterator over a slice it also captured: its parameter is
    a position inside that slice."""
    cs = closure_sites(ctx, K)
    if not cs or e[0] != "call" or site.kind != "index-range":
        return None
    base = strip_wrappers(e[3][0])
    rng = strip_wrappers(e[3][1])
    if rng[0] != "agg" or rng[2] not in ("RangeTo", "RangeFrom", "RangeToInclusive"):
        return None
    need = 0 if rng[2] == "RangeToInclusive" else 1   # `..=p` needs p < len, `..p` / `p..` need p <= len
    bound = strip_wrappers(rng[3][0])
    extra = 0
    if bound[0] == "bin" and bound[1] == "Add" and strip_wrappers(bound[3])[0] == "c" and isinstance(strip_wrappers(bound[3])[2], int) and 0 <= strip_wrappers(bound[3])[2] <= 8:
        extra = strip_wrappers(bound[3])[2]      # `..p + 1`
        bound = strip_wrappers(bound[2])
    # the bound is the closure's own parameter (argument 2, possibly a reference pattern), or a component of it
    is_param = bound[0] == "arg" and bound[1] == 2 or (bound[0] == "pl" and strip_wrappers(bound[1])[0] == "arg" and strip_wrappers(bound[1])[1] == 2 and all(x == "*" for x in bound[2]))
    comp = None
    if not is_param and bound[0] == "pl" and strip_wrappers(bound[1])[0] == "arg" and strip_wrappers(bound[1])[1] == 2:
        comp = tuple(x for x in bound[2] if x != "*")     # e.g. the `.1` of a tuple payload
    if not is_param and comp is None:
        return None
    # the base is a captured variable
    while base[0] == "call" and name_is(base[2], "deref", "as_ref", "as_bytes"):
        base = strip_wrappers(base[3][0])
    if not (base[0] == "pl" and strip_wrappers(base[1])[0] == "arg" and strip_wrappers(base[1])[1] == 1):
        return None
    fs = [x for x in base[2] if isinstance(x, tuple) and x[0] == "f"]
    if not fs:
        return None
    k = fs[0][1]
    for c in cs:
        nm, org, ops = c[0], c[1], c[2]
        if comp is not None:
            # a component of the payload: ask for the origin of that component at the call site
            org = search_origin(sym.mk_place(c[3], comp)) if len(c) > 3 else None
        if org is None or k >= len(ops) or not same_slice(base_slice(ops[k]), org[0]) or org[1] + extra > need:
            return None
    return "closure parameter is a position found in the captured slice (every use of the closure: %s)" % sorted({c[0] for c in cs})


def describe_event(e):
    if e[0] == "assert":
        c = e[4] if len(e) > 4 else None
        if c is None:
            return e[2]
        if c[0] == "bounds":
            return "%s[%s]" % (shape(c[2][1]) if c[2][0] == "len" else shape(c[2]), shape(c[1]))
        return "%s %s %s" % (shape(c[1]), "-" if c[0] == "sub" else "op", shape(c[2]))
    return "%s(%s)" % (sym.short(e[2]).split("::")[-1], ", ".join(shape(a) for a in e[3][:3]))


def decisions_before(p, i):
    return [(e[2], e[3], e[4]) for e in p[:i] if e[0] == "switch"]


# debug_assert!s reachable from the audited entry points: each states an invariant that a rule of some property
# establishes.  A debug assertion that is not listed is a panic-capable site like any other.
DEBUG_SEEN = []
DEBUG_INVARIANTS = {
    "encoding::decode_into|panic|assert_failed(AssertKind::Eq, &Decoder::decode_to_string_without_replacement(..).1, &slice::len(&bytes))": "the output was reserved with max_utf8_buffer_length(len) and the call is made with last=true, so the decoder reads all of the input unless it is malformed (C17 R1: decode_into)",
    "slice_reader::read_bang_element|panic|assert_failed(AssertKind::Eq, &self[_], &33)": "called only after peek_one() returned Some(b'!') (C01 R1 dispatch)",
    "ReaderState::emit_bang|panic|assert_failed(AssertKind::Eq, &slice::first(&buf), &Option::Some(&33))": "called only with what read_bang_element returned, which starts with '!' (C01 R1 dispatch)",
    "ReaderState::emit_bang|panic|debug_assert(slice::ends_with(&buf, &(*b\"--\")))": "a Comment is reported by BangType::parse only at `-->` (C01 R3 terminators)",
    "ReaderState::emit_bang|panic|debug_assert(slice::ends_with(&buf, &(*b\"]]\")))": "a CData is reported by BangType::parse only at `]]>` (C01 R3 terminators)",
    "ReaderState::emit_end|panic|assert_failed(AssertKind::Eq, &slice::first(&buf), &Option::Some(&47))": "called only for content starting with '/' (C01 R1 dispatch)",
    "ReaderState::emit_question_mark|panic|debug_assert((slice::len(&buf) Gt 0))": "called only for content starting with '?' (C01 R1 dispatch)",
    "ReaderState::emit_question_mark|panic|assert_failed(AssertKind::Eq, &buf[_], &63)": "called only for content starting with '?' (C01 R1 dispatch)",
    "MapAccess<'de>>::next_key_seed|panic|assert_failed(AssertKind::Eq, &self.source, &ValueSource::Unknown)": "next_value_seed resets source to Unknown on every path and serde alternates key/value (C07 J2 flags)",
    "MapAccess<'de>>::next_key_seed|panic|assert_failed(AssertKind::Eq, &BytesStart::name(&self.start), &BytesEnd::name(&(*Deserializer::peek(..)?) as End.0))": "the reader checks end names and every nested element was consumed to its End by its own deserializer or by read_to_end (C07 J1b preconditions, J8 skip)",
    "SeqAccess<'de>>::next_element_seed|panic|assert_failed(AssertKind::Eq, &BytesStart::name(&(*self.map).start), &BytesEnd::name(&(*Deserializer::peek(..)?) as End.0))": "same as next_key_seed: the End that closes the sequence's parent (C07 J1b, J8)",
}


def discharge(body, site, p, i, e):
    macros = macro_of(body, site.sp)
    if any(m.startswith("debug_assert") for m in macros):
        fn = sym.short(strip_generics(body.path).replace("::{closure#0}", "{c0}"))
        d = describe_event(e)
        if e[0] == "call" and d.startswith("panic(\"assertion failed"):
            # `debug_assert!(cond)`: identified by the condition tested, not by the source text in the message
            sw = [x for x in p[:i] if x[0] == "switch"]
            d = "debug_assert(%s)" % (shape(sw[-1][2]) if sw else "?")
        key = norm_shape("%s|%s|%s" % (fn, site.kind, d))
        DEBUG_SEEN.append(key)
        keys = [key]
        owner, hops = body, 0
        while hops < 2:   # a private helper with one caller is a piece of that caller (engine.sole_caller)
            owner = sole_caller(body.facts, owner) if getattr(body, "facts", None) is not None else None
            if owner is None:
                break
            hops += 1
            keys.append(norm_shape("%s|%s|%s" % (sym.short(strip_generics(owner.path).replace("::{closure#0}", "{c0}")), site.kind, d)))
        for kk in keys:
            for ek, reason in DEBUG_INVARIANTS.items():
                if key_matches(norm_shape(ek), kk):
                    return "debug-assertion of an audited internal invariant: " + reason
        return None   # a debug assertion on a condition nobody audited is a panic in every debug build
    kind = site.kind
    if kind.startswith("assert:Overflow:Add") or kind.startswith("assert:Overflow:Mul"):
        return "additive overflow of byte counts/indices (needs > 2^64 bytes)"
    if e[0] == "assert":
        cond = e[4] if len(e) > 4 else None
        if kind == "assert:BoundsCheck":
            return bounds_arg(p, i, cond)
        if kind.startswith("assert:Overflow:Sub"):
            return sub_arg(p, i, cond)
        return None
    # calls
    name = sym.short(e[2]).split("::")[-1]
    if kind == "index-range":
        return range_arg(p, i, e)
    if name in ("split_at", "split_at_mut", "split_off"):
        o = search_origin(e[3][1])
        if o is not None and o[1] <= 1 and same_slice(o[0], base_slice(e[3][0])):
            return "split point found by a search over the same slice"
        return None
    if kind == "panic":
        return None
    if name in ("unwrap", "expect"):
        return unwrap_arg(p, i, e)
    return None


def same_slice(a, b):
    if a == b:
        return True
    # de::simple_type::Content::{Input, Slice}(s).as_str() is s itself (for Owned(s, offset) it is &s[offset..], which is
    # why that variant is excluded): a position found in `content.as_str()` is a position in `content as Input.0`
    for x, y in ((a, b), (b, a)):
        y0 = strip_wrappers(y)
        if y0[0] == "pl" and strip_wrappers(y0[1]) == strip_wrappers(x):
            pr = [e for e in y0[2] if e != "*"]
            if len(pr) == 2 and pr[0][0] == "d" and pr[0][2] in ("Input", "Slice") and pr[1][0] == "f" and pr[1][1] == 0:
                return True
    norm = lambda t: re.sub(r"[*&() ]", "", sym.show(t))
    return norm(a) == norm(b)


def rebase(o, target):
    """(S, off) with S = &B[a .. len(B) - b] (constants a, b) says value < len(B) - a - b + off: restate it for B."""
    n = 0
    while o is not None and not same_slice(o[0], target) and n < 4:
        n += 1
        w = strip_wrappers(o[0])
        if not (w[0] == "call" and name_is(w[2], "index") and len(w[3]) == 2 and w[3][1][0] == "agg"):
            return o
        rng = w[3][1]
        B = base_slice(w[3][0])
        a = b = 0
        if rng[2] in ("Range", "RangeFrom"):
            lo = strip_wrappers(rng[3][0])
            if not (lo[0] == "c" and isinstance(lo[2], int)):
                return o
            a = lo[2]
        if rng[2] in ("Range", "RangeTo"):
            hi = strip_wrappers(rng[3][-1])
            if hi[0] == "bin" and hi[1] == "Sub" and strip_wrappers(hi[3])[0] == "c" and (call_is(hi[2], "len") or hi[2][0] == "len") and same_slice(base_slice(hi[2][3][0] if hi[2][0] == "call" else hi[2][1]), B):
                b = strip_wrappers(hi[3])[2]
            else:
                return o
        if rng[2] not in ("Range", "RangeFrom", "RangeTo"):
            return o
        o = (B, o[1] - a - b)
    return o


def bounds_arg(p, i, cond):
    """cond = ('bounds', index_term, len_term)"""
    if cond is None or cond[0] != "bounds":
        return None
    idx, ln = cond[1], cond[2]
    target = base_slice(ln[1]) if ln[0] == "len" else (base_slice(ln[3][0]) if ln[0] == "call" and ln[3] else ln)
    o = rebase(search_origin(idx), target)
    if o is not None and o[1] <= 0 and same_slice(o[0], target):
        return "element index found by a search over the indexed slice (window offsets included)"
    idx0 = strip_wrappers(idx)
    if idx0[0] == "c" and isinstance(idx0[2], int):
        k = idx0[2]
        for t, v, listed in decisions_before(p, i):
            if t[0] == "call" and name_is(t[2], "starts_with") and v != 0:
                lit = bytes_literal(t[3][1])
                if lit is not None and len(lit) > k:
                    return "constant index below the length of a matched prefix"
                if lit is not None and len(lit) == k and any(t2[0] == "bin" and t2[1] == "Eq" and t2[3] == ("c", "usize", k) and v2 == 0 for t2, v2, _ in decisions_before(p, i)):
                    return "constant index k with a matched prefix of length k and len != k"
            if t[0] == "bin" and t[1] in ("Gt", "Ge", "Eq") and t[3][0] == "c" and v != 0:
                lim = t[3][2] + (0 if t[1] == "Gt" else -1 if t[1] == "Ge" else -1)
                if lim >= k - 0 and (t[2][0] == "len" or call_is(t[2], "len")):
                    return "constant index below a tested length"
            if t[0] == "bin" and t[1] in ("Eq",) and t[3][0] == "c" and v == 0 and t[3][2] <= k and (t[2][0] == "len" or call_is(t[2], "len")):
                pass
        return None
    # len-1 under len>k
    if idx0[0] == "bin" and idx0[1] == "Sub" and idx0[3][0] == "c":
        for t, v, listed in decisions_before(p, i):
            if t[0] == "bin" and t[1] in ("Gt", "Ge") and v != 0 and t[3][0] == "c" and t[3][2] + (1 if t[1] == "Gt" else 0) >= idx0[3][2]:
                return "index len-k under a tested len>k"
    # i-1 under i>0
    if idx0[0] == "bin" and idx0[1] == "Sub" and idx0[3] == ("c", "usize", 1):
        o = search_origin(idx0[2])
        if o is not None and o[1] == 0:
            return "index i-1 of a found position i (sub guarded separately)"
    return None


INCREASING = ("memchr_iter", "memchr2_iter", "memchr3_iter", "char_indices", "enumerate", "match_indices")
CUR_PATHS = []


def _iter_origin(t):
    """the call that created the iterator whose `next()` produced payload t, if it yields strictly increasing integers"""
    t = strip_wrappers(t)
    if t[0] != "pl" or t[1][0] != "call" or not name_is(t[1][2], "next"):
        return None
    it = strip_wrappers(t[1][3][0])
    hdr = None
    if it[0] == "phi" and len(it) > 4:
        hdr = it[1]
        it = strip_wrappers(it[4])
    while it[0] == "call" and name_is(it[2], "into_iter", "by_ref"):
        it = strip_wrappers(it[3][0])
    if it[0] == "call" and name_is(it[2], *INCREASING):
        return (it, hdr, t[1][1])
    return None


def monotone_arg(a, b):
    """a - b where a is the current item of a strictly increasing iterator driving a loop and b is a loop-carried
    value that starts at 0 and is only ever set to (an earlier item) or (an earlier item + 1)."""
    b0 = strip_wrappers(b)
    org = _iter_origin(a)
    if org is None or b0[0] != "phi" or len(b0) < 5 or b0[1] != org[1]:
        return None
    if strip_wrappers(b0[4]) != ("c", "usize", 0):
        return None
    ups = 0
    for q in CUR_PATHS:
        if not q or q[-1][0] != "loop" or q[-1][1] != b0[1]:
            continue
        v = q[-1][2].get(b0[3])
        if v is None:
            return None
        v = strip_wrappers(v)
        if v == b0:
            continue  # unchanged on this back edge
        base = v
        if v[0] == "bin" and v[1] == "Add" and strip_wrappers(v[3]) == ("c", "usize", 1):
            base = strip_wrappers(v[2])
        o2 = _iter_origin(base)
        if o2 is None or o2[2] != org[2]:
            return None
        ups += 1
    return "current item of a strictly increasing iterator minus a carried value that is 0 or (an earlier item [+ 1])" if ups else None


def sub_arg(p, i, cond):
    """cond = ('sub', a, b): a - b must not underflow"""
    if cond is None or cond[0] != "sub":
        return None
    a, b = cond[1], cond[2]
    m = monotone_arg(a, b)
    if m:
        return m
    b0 = strip_wrappers(b)
    for t, v, listed in decisions_before(p, i):
        if t[0] == "bin" and t[1] in ("Gt", "Ge") and v != 0 and (t[2] == a or strip_wrappers(t[2]) == strip_wrappers(a)):
            if t[3] == b or (t[3][0] == "c" and b0[0] == "c" and t[3][2] + (1 if t[1] == "Gt" else 0) >= b0[2]):
                return "subtraction guarded by a dominating comparison"
        if t[0] == "bin" and t[1] == "Eq" and v == 0 and t[3][0] == "c" and t[3][2] == 0 and b0 == ("c", b0[1], 1) and strip_wrappers(t[2]) == strip_wrappers(a):
            return "x-1 under x != 0"
        # `match x { 0 => .., _ => x -= 1 }`: the otherwise edge of a switch on x that lists every value below the subtrahend
        if b0[0] == "c" and isinstance(b0[2], int) and strip_wrappers(t) == strip_wrappers(a) and not isinstance(v, (int, bool)) and listed and set(range(b0[2])) <= set(listed):
            return "x-c on the otherwise edge of a match on x that lists 0..c-1"
        if b0[0] == "c" and isinstance(b0[2], int) and strip_wrappers(t) == strip_wrappers(a) and isinstance(v, int) and not isinstance(v, bool) and v >= b0[2]:
            return "x-c in the arm of a match on x for a value >= c"
    return None


def range_arg(p, i, e):
    base = base_slice(e[3][0])
    rng = strip_wrappers(e[3][1])
    if rng[0] != "agg":
        return None
    kind = rng[2]
    ops = rng[3]

    def bound_ok(t, upper):
        t0 = strip_wrappers(t)
        if t0[0] == "c" and t0[2] == 0:
            return True
        o = search_origin(t)
        if o is not None and o[1] <= 1 and same_slice(o[0], base):
            return True
        if t0[0] == "call" and name_is(t0[2], "len") and same_slice(base_slice(t0[3][0]), base):
            return True
        return False

    if kind == "RangeFull":
        return "full range"
    # `let (head, rest) = s.split_at(k); &rest[c..]` with k a found position in s: rest has at least one byte
    b0 = strip_wrappers(e[3][0])
    if kind == "RangeFrom" and b0[0] == "pl" and call_is(b0[1], "split_at") and fields_of(b0)[-1:] == ("1",):
        c0 = strip_wrappers(ops[0])
        o = search_origin(b0[1][3][1])
        if c0[0] == "c" and isinstance(c0[2], int) and o is not None and same_slice(o[0], base_slice(b0[1][3][0])) and c0[2] <= 1 - o[1]:
            return "tail of split_at at a found position: at least the found byte remains"
    if kind == "RangeFrom" and bound_ok(ops[0], False):
        return "range start found by a search over the same slice (<= len)"
    if kind == "RangeTo" and bound_ok(ops[0], True):
        return "range end found by a search over the same slice (<= len)"
    if kind == "Range" and bound_ok(ops[0], False) and bound_ok(ops[1], True):
        return "range bounds found by searches over the same slice"
    # buf[c1 .. len - c2] under a dominating `len > k` with k >= c1 + c2 - 1
    if kind == "Range":
        lo, hi = strip_wrappers(ops[0]), strip_wrappers(ops[1])
        if lo[0] == "c" and hi[0] == "bin" and hi[1] == "Sub" and hi[3][0] == "c" and (call_is(hi[2], "len") or hi[2][0] == "len"):
            need = lo[2] + hi[3][2]
            for t, v, listed in decisions_before(p, i):
                if t[0] == "bin" and t[1] in ("Gt", "Ge") and v != 0 and t[3][0] == "c" and (call_is(t[2], "len") or t[2][0] == "len"):
                    if t[3][2] + (1 if t[1] == "Gt" else 0) >= need:
                        return "constant cuts within a tested length"
    # s[..k] / s[k..] where the path tested `s.len() >= k` (k any term, e.g. another slice's length)
    if kind in ("RangeTo", "RangeFrom"):
        k = strip_wrappers(ops[0])
        for t, v, listed in decisions_before(p, i):
            if t[0] != "bin" or t[1] not in ("Ge", "Gt", "Le", "Lt"):
                continue
            l, r = strip_wrappers(t[2]), strip_wrappers(t[3])
            op = t[1]
            if (call_is(r, "len") or r[0] == "len") and not (call_is(l, "len") and same_slice(base_slice(l[3][0]), base)):
                l, r = r, l
                op = {"Ge": "Le", "Gt": "Lt", "Le": "Ge", "Lt": "Gt"}[op]
            same_bound = r == k or (call_is(r, "len") and call_is(k, "len") and strip_wrappers(r[3][0]) == strip_wrappers(k[3][0])
                                    and not has_subterm(strip_wrappers(r[3][0]), lambda s2: s2[0] == "call"))   # two `x.len()` of the same untouched place
            if not (call_is(l, "len") and l[3] and same_slice(base_slice(l[3][0]), base)) or not same_bound:
                continue
            # len(s) op k
            holds = (op in ("Ge", "Gt") and v != 0) or (op in ("Lt",) and v == 0)
            if holds:
                return "bound within a length tested on this path (len >= bound)"
    # constant start under starts_with / length test
    consts = [strip_wrappers(x) for x in ops]
    if kind in ("RangeFrom", "RangeTo") and consts[0][0] == "call" and name_is(consts[0][2], "len") and bytes_literal(consts[0][3][0]) is not None:
        consts = [("c", "usize", len(bytes_literal(consts[0][3][0])))]
    if kind in ("RangeFrom", "RangeTo") and consts[0][0] == "c":
        k = consts[0][2]
        for t, v, listed in decisions_before(p, i):
            if t[0] == "call" and name_is(t[2], "starts_with") and v != 0:
                lit = bytes_literal(t[3][1])
                if lit is not None and len(lit) >= k:
                    return "constant bound within a matched prefix"
            if t[0] == "call" and "closure" in str(t[2]) and v != 0:
                return None
    return None


def unwrap_arg(p, i, e):
    recv = strip_wrappers(e[3][0])
    while recv[0] == "call" and name_is(recv[2], "as_mut", "as_ref", "as_deref", "as_deref_mut") and "Option" in recv[2]:
        recv = strip_wrappers(recv[3][0])
    # just constructed Some(..)/Ok(..)
    if recv[0] == "agg" and recv[2] in ("Some", "Ok"):
        return "unwrap of a value constructed on this path"
    for t, v, listed in decisions_before(p, i):
        if t[0] == "discr" and strip_wrappers(t[1]) == recv and ((v == 1 and "Option" in str(t[3])) or (v == 0 and "Result" in str(t[3]))):
            return "unwrap of a value matched as Some/Ok on this path"
        if t[0] == "call" and name_is(t[2], "is_some", "is_ok") and v != 0 and strip_wrappers(t[3][0]) == recv:
            return "unwrap after is_some/is_ok"
        if t[0] == "call" and name_is(t[2], "is_none", "is_err") and v == 0 and strip_wrappers(t[3][0]) == recv:
            return "unwrap after !is_none"
    return None


# ------------------------------------------------------------------ audit driver

READER_ENTRIES = ("src/reader/", "src/events/", "src/name.rs", "src/parser/", "src/utils.rs", "src/encoding.rs", "src/escape.rs")
READER_EXEMPT = {
    # ---- encoding.rs
    "encoding::decode_into|call:unwrap|unwrap(Decoder::max_utf8_buffer_length_without_replacement": "encoding_rs returns None only on usize overflow of the worst-case length; the buffer is reserved from this very bound (library fact)",
    "encoding::decode_into|panic|panic(\"internal error: entered unreachable code\")": "DecoderResult::OutputFull cannot occur: the output buffer was reserved with max_utf8_buffer_length_without_replacement (library fact)",
    # ---- escape.rs
    "escape::_escape|index-range|index(&(*str::as_bytes(..)), Range::Range(pos', (pos' Add Iterator>::position": "`iter` is one advancing iterator over `bytes`; position() counts from its current offset, which equals `pos` (pos = new_pos + 1 after each hit), so pos + i < len",
    "escape::_escape|assert:BoundsCheck|str::as_bytes(&(*Deref>::deref(..)))[(pos' Add Iterator>::position": "same relation: new_pos = pos + i is the index of the byte the predicate accepted",
    "escape::_escape|panic|panic_fmt(Arguments::from_str_nonconst(\"internal error: entered unreachable code: Only": "every escape predicate selects only bytes that have a replacement arm (re-verified on every run: C10 R1 `:handled`, C06 R2 `:handled`)",
    "escape::_escape|call:unwrap|unwrap(String::from_utf8(escaped' as Some.0))": "input is UTF-8 and only ASCII bytes are replaced by ASCII text (re-verified: C10 R1 `:ascii`), so the output is UTF-8",
    "escape::unescape_with|index-range|index(&raw, Range::Range(last_end', Iterator::find": "positions come from memchr2_iter over raw's bytes in increasing order; last_end = previous ';' + 1 <= next '&'; both are ASCII so char boundaries",
    "escape::unescape_with|index-range|index(&raw, Range::Range((Iterator::find(..) as Some.0 Add 1), Iterator>::next": "start ('&') < end (the next hit ';') of the same increasing iterator; ASCII positions are char boundaries",
    "escape::unescape_with{c0}|assert:BoundsCheck|&(*_.0)[_]": "p is a position yielded by memchr2_iter over these very bytes",
    # ---- events/attributes.rs (ranges are produced by IterState over the same slice, see C11)
    "Iterator>::next{c0}|index-range|index(&(*_.0), _)": "Attr ranges are produced by IterState::next over self.bytes (C11 R1: every range bound is an index found in that slice)",
    "IterState::skip_value|index-range|index(&slice, RangeFrom::RangeFrom(offset))": "offset is the payload of State::SkipValue, an index found in the same slice by the previous next() (C11 R1 state table)",
    "IterState::skip_eq_value|index-range|index(&slice, RangeFrom::RangeFrom((offset Add 1)))": "offset is the payload of State::SkipEqValue, the index of an '=' found in the same slice (C11 R1 `next:Duplicated`), so offset + 1 <= len",
    "IterState::check_for_duplicates{c0}|index-range|index(&(*_.0), Clone>::clone(&_))": "recorded key ranges come from the same slice",
    # the same two sites when the search over the recorded keys is written as a loop in the function itself
    "IterState::check_for_duplicates|index-range|index(&slice, Clone>::clone(&(*Iterator>::next(..)?)))": "recorded key ranges come from the same slice (loop spelling of the site above)",
    "IterState::check_for_duplicates|index-range|index(&slice, Clone>::clone(&key))": "the key range was just produced from the same slice (loop spelling)",
    "IterState::check_for_duplicates{c0}|index-range|index(&(*_.0), Clone>::clone(&(*_.1)))": "the key range was just produced from the same slice",
    "IterState::next|index-range|index(&slice, RangeFrom::RangeFrom(IterState::recover(..) as Some.0))": "recover() returns a state payload or an index found by a search in the same slice",
    # ---- events/mod.rs: BytesStart invariant name_len <= buf.len()
    "BytesStart::name|index-range|index(&(*Deref>::deref(..)), RangeTo::RangeTo(self.name_len))": "struct invariant name_len <= buf.len(): set by wrap(content, name_len(content)) / new / set_name (C09 R3); from_content documents it as a precondition",
    "BytesStart::raw_name|index-range|index(&self.buf as Owned.0, RangeTo::RangeTo(self.name_len))": "struct invariant name_len <= buf.len() (C09 R3)",
    "BytesStart::raw_name|index-range|index(&(*self.buf as Borrowed.0), RangeTo::RangeTo(self.name_len))": "struct invariant name_len <= buf.len() (C09 R3)",
    "BytesStart::attributes_raw|index-range|index(&(*Deref>::deref(..)), RangeFrom::RangeFrom(self.name_len))": "struct invariant name_len <= buf.len() (C09 R3)",
    # ---- name.rs
    "QName::local_name{c0}|index-range|index(&(*_.0), RangeFrom::RangeFrom((_ Add 1)))": "i is the result of self.index() = memchr(':', self.0) passed by map_or: i < len",
    "QName::prefix{c0}|index-range|index(&(*_.0), RangeTo::RangeTo(_))": "i is the result of self.index() = memchr(':', self.0)",
    "QName::as_namespace_binding|index-range|index(&(*self.0), RangeFrom::RangeFrom(6))": "taken only when starts_with(b\"xmlns\") and get(5) == Some(':'): len >= 6",
    "QName<'a>>>::from{c0}|index-range|index(&(*_.0), RangeFrom::RangeFrom((_ Add 1)))": "i is the result of index() over the same slice",
    "NamespaceEntry::prefix|index-range|index(&ns_buffer, Range::Range(self.start, (self.start Add self.prefix_len)))": "entries are recorded by push()/default() from buffer.len() before appending exactly prefix and value (C05 R3 push); pop() truncates buffer and bindings together",
    "NamespaceEntry::namespace|index-range|index(&buffer, Range::Range((self.start Add self.prefix_len)": "same invariant of (start, prefix_len, value_len) against the shared buffer",
    "NamespaceResolver::pop|assert:Overflow:Sub|self.nesting_level - 1": "i32 level: underflow needs 2^31 pops without a push",
    "Iterator>::next|index-range|index(&(*self.resolver).bindings, RangeFrom::RangeFrom(..self.bindings_cursor": "cursor <= len always (it starts at 2 = the reserved entries, which are never removed, and only advances while get(cursor) is Some), and where cursor + 1 is used cursor was just used by get(cursor) == Some",
    "Iterator>::size_hint|assert:Overflow:Sub|Vec::len(&(*self.resolver).bindings) - self.bindings_cursor": "cursor starts at 2 = number of reserved entries that are never removed and only advances while get(cursor) is Some",
    # ---- reader
    "async_tokio::poll_read|assert:Overflow:Sub|ReadBuf::remaining(&buf) - ReadBuf::remaining(&buf)": "AsyncRead::poll_read only fills the buffer: remaining after <= remaining before (tokio contract)",
    "async_tokio::read_until_close_async{c0}|assert:Overflow:Sub|(*_.0).state.offset - 1": "called only in state InsideMarkup, entered after read_text consumed the '<' (offset >= 1): C03 R2 transition relation",
    "Reader::read_until_close|assert:Overflow:Sub|self.state.offset - 1": "called only in state InsideMarkup, entered after read_text consumed the '<' (offset >= 1): C03 R2 transition relation",
    "Reader::buffer_position|assert:Overflow:Sub|self.state.offset - 1": "only in state InsideMarkup, i.e. after the '<' was consumed (offset >= 1)",
    "slice_reader::read_text|assert:Overflow:Sub|slice_reader::read_to_end(..)?.end - slice_reader::read_to_end(..)?.start": "span.start is taken before the loop and span.end before a later read; positions never decrease (C03 R4)",
    "slice_reader::read_text|index-range|index(&(*self.reader), Range::Range(0, (": "the span was measured on this very slice starting at its first byte (C12 R3)",
    "slice_reader::detect_encoding|index-range|index(&self, RangeFrom::RangeFrom(encoding::detect_encoding(..) as Some.0.1))": "the returned BOM length is the length of the prefix that was matched on this slice (C17 R3)",
    "slice_reader::read_text|index-range|index(&self, RangeFrom::RangeFrom(1))": "arm Some(0): memchr found '<' at index 0, so len >= 1",
    "slice_reader::read_bang_element|assert:BoundsCheck|&self[0]": "argument of a debug_assert: called only after peek_one() returned Some(b'!') (C01 R1 dispatch)",
    "slice_reader::read_bang_element|index-range|index(&self, RangeFrom::RangeFrom(1))": "called only after peek_one() returned Some(b'!') (C01 R1 dispatch): len >= 1",
    "BangType::parse|assert:BoundsCheck|chunk[0]": "evaluated only when i == 1 where i is a memchr index into chunk: len >= 2",
    # ---- reader/state.rs: constant relations with the scanners (C01 R3/R4) and consumed-byte accounting (C02)
    "ReaderState::emit_bang|assert:Overflow:Sub|self.offset - (slice::len(&buf) as u64)": "offset was advanced by len(buf) + 2 ('<' and '>') when this construct was read (C02 R2 consumed = advanced)",
    "ReaderState::emit_bang|assert:Overflow:Sub|(self.offset Sub (slice::len(..) as u64)) - 2": "same accounting: '<' and '>' were consumed in addition to buf",
    "ReaderState::emit_bang|assert:Overflow:Sub|self.offset - 1": "the '>' was consumed: offset >= 1",
    "ReaderState::emit_bang|assert:Overflow:Sub|slice::len(&buf) - 2": "Comment: scanner minimum length > 4 (C01 R3 min-length); CData: starts_with(`![CDATA[`) (8 bytes, no ']') and the scanner required `]]` after it",
    "ReaderState::emit_bang|index-range|index(&buf, Range::Range(3, (slice::len(..) Sub 2)))": "Comment: len >= 5 by the scanner's minimum length (C01 R3 `Comment:min-length`), so 3 <= len - 2",
    "ReaderState::emit_bang|index-range|index(&buf, Range::Range(8, (slice::len(..) Sub 2)))": "CData: prefix of 8 bytes without ']' matched and the scanner required a trailing `]]`: len >= 10",
    "ReaderState::emit_bang|assert:BoundsCheck|buf[(3 Add (off' Add (memchr::memchr(..) as Some.0 Add 1)))]": "haystack = buf[3..len-2] suffixes; a '-' found at p there is followed by at least the two trailing bytes `--` of buf",
    "ReaderState::emit_bang|index-range|index(&buf, RangeFrom::RangeFrom(8))": "guarded by uncased_starts_with(buf, `!DOCTYPE`): len >= 8",
    "ReaderState::emit_bang|index-range|index(&buf, RangeFrom::RangeFrom((8 Add Iterator>::position(..) as Some.0)))": "start found by position() over buf[8..]",
    "ReaderState::emit_bang{c0}|index-range|index(&_, RangeTo::RangeTo(slice::len(&_)))": "right operand of `string.len() >= prefix.len() &&`",
    "ReaderState::emit_end|index-range|index(&buf, RangeFrom::RangeFrom(1))": "called only for content starting with '/' (C01 R1 dispatch; debug_assert above): len >= 1",
    "ReaderState::emit_end|index-range|index(&self.opened_buffer, RangeFrom::RangeFrom(Vec::pop(..) as Some.0))": "popped start was pushed as opened_buffer.len() and the buffer is only truncated back to popped starts (C04 R1/R3 pairing)",
    "ReaderState::emit_end|assert:Overflow:Sub|self.offset - (slice::len(&buf) as u64)": "offset was advanced by len(buf) + 2 when the tag was read (C02 R2)",
    "ReaderState::emit_end|assert:Overflow:Sub|(self.offset Sub (slice::len(..) as u64)) - 2": "same accounting",
    "ReaderState::emit_question_mark|assert:Overflow:Sub|self.offset - (slice::len(&buf) as u64)": "offset was advanced by len(buf) + 2 when the construct was read (C02 R2)",
    "ReaderState::emit_question_mark|assert:Overflow:Sub|(self.offset Sub (slice::len(..) as u64)) - 2": "same accounting",
    "ReaderState::close_expanded_empty|call:unwrap|unwrap(Vec::pop(&self.opened_starts))": "state InsideEmpty is entered only by emit_start's expanded-empty path, which pushed (C04 R3 / C03 R2 transitions)",
    "ReaderState::close_expanded_empty|call:split_off|split_off(&self.opened_buffer, Option::unwrap(Vec::pop(&self.opened_starts)))": "the popped start is a former opened_buffer.len() (C04 R3)",
}
DE_ENTRIES = ("src/de/",)
DE_EXEMPT = {
    # ---- J7 library facts
    "QNameDeserializer::from_elem|call:unwrap|unwrap(String::from_utf8(name as Owned.0))": "J7: taken only when decoder.decode() returned Cow::Borrowed for these very bytes, i.e. they are valid UTF-8",
    # ---- J5 local index arguments (ranges produced by the attribute iterator / searches over the same string)
    "MapAccess<'de>>::next_key_seed|index-range|index(&(*Deref>::deref(..)), Into<U>>::into(Try>::branch(..) as Continue.0 as Some.0).0)": "J5: key range produced by IterState::next over self.start.buf (C11)",
    "SimpleTypeDeserializer::from_part|index-range|index(&value as Owned.0, range)": "J5: value range produced by IterState::next over the same start-tag buffer (ValueSource::Attribute, C11)",
    "SimpleTypeDeserializer::from_part|index-range|index(&(*value as Borrowed.0), range)": "J5: value range produced by IterState::next over the same start-tag buffer (C11)",
    "Content::as_str|call:split_at|split_at(&(*Deref>::deref(..)), self as Owned.1)": "J5: Owned(s, offset): offset is a sum of positions found by memchr/position in s (ListIter), always a char boundary (delimiter is ASCII space)",
    "SeqAccess<'de>>::next_element_seed|call:split_at|split_at(&(*Deref>::deref(..)), content' as Owned.1)": "J5: same offset invariant of Content::Owned",
    "SeqAccess<'de>>::next_element_seed|call:split_at|split_at(&(*content' as Slice.0), Iterator>::position": "J5: position of the first non-space byte of this string",
    "SeqAccess<'de>>::next_element_seed|call:split_at|split_at(&(*content' as Input.0), Iterator>::position": "J5: position of the first non-space byte of this string",
    "SeqAccess<'de>>::next_element_seed|call:split_at|split_at(&(*content' as Slice.0), memchr::memchr(32": "J5: memchr position of an ASCII space in this string",
    "SeqAccess<'de>>::next_element_seed|call:split_at|split_at(&(*content' as Input.0), memchr::memchr(32": "J5: memchr position of an ASCII space in this string",
    "SeqAccess<'de>>::next_element_seed|call:split_at|split_at(&(*Deref>::deref(..)), (content' as Owned.1 Add memchr::memchr": "J5: skip + memchr position within s[skip..]",
    "Deserializer::start_replay|call:split_off|split_off(&self.write, checkpoint)": "J5: checkpoint is a former self.write.len() returned by skip_checkpoint() and write only grows between checkpoint and replay (C20 R2)",
    # ---- J1 peek-then-next (re-verified by rule J1 for the in-function sites)
    "SeqAccess<'de>>::next_element_seed|panic|panic(\"internal error: entered unreachable code\")": "J1: next() follows a peek() of the same variant in the same loop iteration (rule J1)",
    # ---- J2 flag-carried protocol (re-verified by rule J2)
    "MapAccess<'de>>::next_value_seed|panic|panic(\"internal error: entered unreachable code\")": "J2: ValueSource::Text is written only where peek() returned Text (rule J2 `source=Text`)",
    "Deserializer<'de>>::deserialize_seq|panic|panic(\"internal error: entered unreachable code\")": "J2: fixed_name == true only for ValueSource::Nested, i.e. after peek() returned Start (rule J2 `fixed_name`)",
    "Deserializer<'de>>::deserialize_enum|panic|panic(\"internal error: entered unreachable code\")": "J2: fixed_name == true only after peek() returned Start (rule J2 `fixed_name`)",
    "EnumAccess<'de>>::variant_seed|panic|panic(\"internal error: entered unreachable code\")": "J2: MapValueDeserializer is created only for ValueSource::{Content, Nested}, i.e. after peek() returned Text or Start (rule J2)",
    "VariantAccess<'de>>::unit_variant|panic|panic_fmt": "J2: variant_seed peeked Start or Text and consumed nothing (rule J2 `is_text`)",
    "VariantAccess<'de>>::newtype_variant_seed|panic|panic_fmt": "J2: is_text == true only when variant_seed peeked Text (rule J2 `is_text`)",
    "VariantAccess<'de>>::tuple_variant|panic|panic_fmt": "J2: is_text == true only when variant_seed peeked Text (rule J2 `is_text`)",
    "VariantAccess<'de>>::struct_variant|panic|panic_fmt": "J2: variant_seed peeked Start or Text and consumed nothing (rule J2 `is_text`)",
    "Deserializer::skip_next_tree|panic|panic_fmt": "J1 across the call: every caller lies on paths where peek() was matched to Start (rule J1b, re-verified)",
    # ---- J3 reader guarantees matched tags (re-verified by rule J3)
    "EnumAccess<'de>>::variant_seed|panic|panic_fmt(Arguments::new": "J3: an End event cannot be the next event of a value position: the reader rejects stray/mismatched end tags (rule J3) and every Start consumer consumes through the matching End",
    "Deserializer::read_string_impl|panic|panic_fmt(Arguments::new": "J3: same guarantee (rule J3)",
    "Deserializer<'de>>::deserialize_struct|panic|panic_fmt(Arguments::new": "J3: same guarantee (rule J3)",
    "Deserializer<'de>>::deserialize_unit|panic|panic_fmt(Arguments::new": "J3: same guarantee (rule J3)",
    # ---- J4 merging transducer (re-verified by rule J4)
    "XmlReader::drain_text|panic|panic_fmt": "J4: reached only when the lookahead is Text or CData, both handled (rule J4 `drain_text:handles`)",
    "Deserializer::read_text|panic|panic(\"internal error: entered unreachable code\")": "J4: two consecutive DeEvent::Text cannot occur (rule J4)",
    # ---- J6 container just filled (re-verified by rule J6)
    "Deserializer::peek|panic|panic(\"internal error: entered unreachable code\")": "J6: the queue / peek slot was filled just above (rule J6)",
    "Deserializer::last_peeked|call:expect|expect(": "J6: called only right after peek() returned a reference to this very slot (J1 one call level up)",
}


def site_key(s):
    fn = sym.short(strip_generics(s.body.path).replace("::{closure#0}", "{c0}"))
    return "%s|%s|%s" % (fn, s.kind, s.descr or "")


def _wild(pat):
    """An elided `..` in a shape stands for whatever the printer cut there."""
    fn, kind, sh = (pat.split("|", 2) + ["", ""])[:3]
    return re.escape(fn) + r"\|" + re.escape(kind) + r"\|" + ".*?".join(re.escape(x) for x in sh.split(".."))


def key_matches(ek, key):
    """Exemption keys are `function|kind|operand shape` (shape possibly truncated): same function, same kind, and the
    shapes agree wherever neither side was elided by the printer."""
    if key.startswith(ek):
        return True
    if ek.split("|")[:2] != key.split("|")[:2]:
        return False
    return re.match(_wild(ek), key) is not None or (".." in key.split("|", 2)[-1] and re.match(_wild(key[: max(len(ek), 40)]), ek) is not None)


def audit(ctx, rule, prefixes, exempt, floor, exclude=()):
    for cfg, F in ctx.facts.items():
        total = 0
        auto = 0
        ex = 0
        used = set()
        for b in audited_bodies(F, prefixes, exclude):
            for s in analyse_body(ctx, b):
                total += 1
                key = site_key(s)
                if s.paths == 0:
                    # site lies only on paths cut by the loop bound or behind an infeasible edge
                    s.undischarged.append("no complete path reaches the site (fail closed)")
                if not s.undischarged:
                    auto += 1
                    ctx.ob(rule, "site:" + key, True, "discharged: " + "; ".join(sorted(s.args)), loc=b.loc(s.sp), config=cfg)
                    continue
                k2 = "%s|%s" % (key.split("|")[0], key.split("|")[1])
                hit = None
                for ek, reason in exempt.items():
                    if key_matches(norm_shape(ek), norm_shape(key)):
                        hit = (ek, reason)
                        break
                if not hit:
                    # a private helper with a single caller is a piece of that caller: the caller's audited sites go with it
                    owner = sole_caller(F, b)
                    hops = 0
                    while owner is not None and not hit and hops < 2:
                        hops += 1
                        ofn = sym.short(strip_generics(owner.path).replace("::{closure#0}", "{c0}"))
                        key2 = ofn + "|" + key.split("|", 1)[1]
                        for ek, reason in exempt.items():
                            if key_matches(norm_shape(ek), norm_shape(key2)):
                                hit = (ek, reason + " [site moved into the private helper %s, whose only caller is %s]" % (key.split("|")[0], ofn))
                                break
                        owner = sole_caller(F, owner)
                if hit:
                    ex += 1
                    used.add(hit[0])
                    ctx.ob(rule, "site:" + key, True, "audited exemption: " + hit[1], loc=b.loc(s.sp), config=cfg)
                else:
                    ctx.ob(rule, "site:" + key, False, "unjustified panic-capable site (no local argument discharges it on every path and it is not an audited exemption): %s" % s.undischarged[:2], loc=b.loc(s.sp), config=cfg)
        ctx.floor(rule, "panic-capable sites audited", total, floor, config=cfg)
        ctx.analysed_calls += total
        stale = [k for k in exempt if k not in used]
        ctx.ob(rule, "exemptions:all-used", True, "exemptions not matched in this configuration (informative): %d" % len(stale), config=cfg)
