"""Quote-target discipline of the simple-type serializers (C06 round trip, C13 well-formed output).

Every serializer that escapes text carries a `QuoteTarget` telling it which characters the surrounding context
makes dangerous.  The value is decided once, where the context is known (text content, or between the quotes of an
attribute), and every serializer derived from that one must inherit it.  Rule:

  * a construction of a struct with a QuoteTarget field inside a method whose own receiver carries a QuoteTarget
    must copy the receiver's field (propagation);
  * any other construction decides the context: if the function wrote `="` before it the target must be
    DoubleQAttr, after `='` SingleQAttr, otherwise Text.
"""
import sym
from engine import bytes_literal, char_value, has_subterm, calls, ends, fields_of, name_is, root_of, strip_wrappers


def target_adts(F):
    out = {}
    for a in (F.adts.values() if isinstance(F.adts, dict) else F.adts):
        for v in a["variants"]:
            for i, f in enumerate(v["fields"]):
                if f["ty"].endswith("QuoteTarget"):
                    out[a["path"]] = (i, f["name"])
    return out


def _lit(t):
    t = strip_wrappers(t)
    if t[0] == "c":
        if t[1] == "char":
            return chr(char_value(t[2]))
        b = bytes_literal(t)
        if b is not None:
            return b.decode("utf-8", "replace")
    return None


def check(ctx, rule, F, cfg):
    adts = target_adts(F)
    ctx.floor(rule, "structs carrying a QuoteTarget", len(adts), 3, config=cfg)
    sites = 0
    for b in F.bodies:
        mine = []
        for blk in b.blocks:
            for st in blk["stmts"]:
                r = st.get("r")
                if isinstance(r, dict) and r.get("k") == "agg" and r.get("adt") in adts:
                    mine.append(r["adt"])
        if not mine:
            continue
        fn = sym.short(b.path)
        # does the receiver carry a target?
        self_ty = (b.locals[1] if isinstance(b.locals[1], str) else str(b.locals[1])) if b.argc >= 1 and len(b.locals) > 1 else ""
        recv = [a for a in adts if a.split("::")[-1] in self_ty]
        seen = set()
        for p in ctx.paths(b):
            if ends(p) != "ret":
                continue
            for t in _aggs(p, adts):
                idx, fname = adts[t[1]]
                op = strip_wrappers(t[3][idx])
                key = (t[1], sym.show(op, 2))
                if key in seen:
                    continue
                seen.add(key)
                sites += 1
                site = "%s:%s.%s" % (fn, t[1].split("::")[-1], fname)
                if recv:
                    rf = adts[recv[0]][1]
                    ok = op[0] == "pl" and root_of(op)[0] == "arg" and root_of(op)[2] == "self" and fields_of(op)[-1:] == (rf,)
                    ctx.ob(rule, site + ":inherited", ok, "a serializer derived from one that already knows its quoting context must inherit it (self.%s), found %s" % (rf, sym.show(op, 2)), config=cfg)
                    continue
                # context decided here: look at what was written before
                before = []
                for c in calls(p):
                    if any(has_subterm(a, lambda s2: s2 == t) for a in c[3]):
                        break
                    before.append(c)
                written = "".join(x for x in (_lit(c[3][1]) for c in before if name_is(c[2], "write_str", "write_char") and len(c[3]) > 1) if x is not None)
                want = "DoubleQAttr" if written.rstrip().endswith('="') else "SingleQAttr" if written.rstrip().endswith("='") else "Text"
                got = op[2][2] if op[0] == "c" and isinstance(op[2], tuple) and op[2][0] == "variant" else (op[2] if op[0] == "agg" else sym.show(op, 2))
                ctx.ob(rule, site + ":context", got == want, "the function wrote %r before building the serializer, so its target must be %s; it is %s" % (written[-12:], want, got), config=cfg)
    ctx.floor(rule, "QuoteTarget constructions", sites, 4, config=cfg)


def _aggs(p, adts):
    out = []
    seen = set()
    for e in p:
        for x in e[2:]:
            if isinstance(x, tuple):
                for s in sym.subterms(x):
                    if isinstance(s, tuple) and s and s[0] == "agg" and s[1] in adts and id(s) not in seen:
                        seen.add(id(s))
                        out.append(s)
            elif isinstance(x, dict):
                for v in x.values():
                    for s in sym.subterms(v):
                        if isinstance(s, tuple) and s and s[0] == "agg" and s[1] in adts and id(s) not in seen:
                            seen.add(id(s))
                            out.append(s)
    return out
