"""Extraction of the writer's per-event output table (shared by C08, C09, C19)."""
from engine import *
from facts import strip_generics, callee_of
import sym

PLUMB = ("into_future", "Pin::new_unchecked", "get_context", "Future>::poll")

# reference (DESIGN.md A.3 / A.12): event -> (kind, before, after, line break after, indentation effect)
REF = {
    "Start": ("wrapped", b"<", b">", True, "grow-after"),
    "End": ("wrapped", b"</", b">", True, "shrink-before"),
    "Empty": ("wrapped", b"<", b"/>", True, None),
    "Text": ("plain", b"", b"", False, None),
    "Comment": ("wrapped", b"<!--", b"-->", True, None),
    "CData": ("plain", b"<![CDATA[", b"]]>", False, None),
    "Decl": ("wrapped", b"<?", b"?>", True, None),
    "PI": ("wrapped", b"<?", b"?>", True, None),
    "DocType": ("wrapped", b"<!DOCTYPE ", b">", True, None),
    "Eof": ("nothing", b"", b"", True, None),
}


def unawait(t):
    return t[1] if t[0] == "await" else t


def payload_like(t):
    """operand is the event payload (deref of the matched event), not a literal"""
    return bytes_literal(t) is None


def event_tables(ctx, F, body):
    """event name -> set of row tuples (kind, before, after, linebreak, indent-effect) over all Ok-ish paths"""
    evs = F.variants("events::Event")
    rows = {}
    for p in ctx.paths(body, max_paths=60000):
        if ends(p) != "ret":
            continue
        d = decision_on(p, lambda t: t[0] == "discr" and call_is(t[1], "into"))
        if not isinstance(d, int):
            continue
        ev = evs[d]
        r = ret_of(p)
        # the Option<Indentation> cannot change its variant inside one call: drop paths on which two
        # tests of `self.indent.as_mut()` disagree (the walker treats the two calls as independent)
        inds = [e[3] for e in p if e[0] == "switch" and e[2][0] == "discr" and call_is(e[2][1], "as_mut") and has_subterm(e[2][1], lambda s: s[0] == "pl" and ends_with_fields(s, "indent"))]
        if len(set(inds)) > 1:
            continue
        # skip the error exits of `?` inside the CData arm (partial output)
        if r is not None and ((r[0] == "call" and name_is(r[2], "from_residual")) or is_error_exit(p)):
            continue
        acts = []
        order = []
        for c in calls(p):
            if name_is(c[2], *PLUMB):
                continue
            nm = sym.short(c[2]).split("::")[-1]
            if nm in ("write_wrapped", "write_wrapped_async"):
                acts.append(("wrapped", bytes_literal(c[3][1]), "payload" if payload_like(c[3][2]) else bytes_literal(c[3][2]), bytes_literal(c[3][3])))
                order.append("write")
            elif nm in ("write", "write_async"):
                lit = bytes_literal(c[3][1])
                acts.append(("write", lit if lit is not None else "payload"))
                order.append("write")
            elif nm in ("grow", "shrink"):
                order.append(nm)
        lb = None
        for e in p:
            if e[0] == "store" and ends_with_fields(e[2], "should_line_break"):
                lb = e[3][2] if e[3][0] == "c" else "?"
        flagged = decision_on(p, lambda t: t[0] == "discr" and call_is(t[1], "as_mut") and has_subterm(t[1], lambda s: s[0] == "pl" and ends_with_fields(s, "indent")))
        # normalise
        if len(acts) == 1 and acts[0][0] == "wrapped":
            kind, before, after = "wrapped", acts[0][1], acts[0][3]
            okp = acts[0][2] == "payload"
        elif acts and all(a[0] == "write" for a in acts):
            kind = "plain"
            lits = [a[1] for a in acts]
            if lits == ["payload"]:
                before, after, okp = b"", b"", True
            elif len(lits) == 3 and lits[1] == "payload":
                before, after, okp = lits[0], lits[2], True
            else:
                before, after, okp = None, None, False
        elif not acts:
            kind, before, after, okp = "nothing", b"", b"", True
        else:
            kind, before, after, okp = "mixed", None, None, False
        eff = None
        if "grow" in order:
            eff = "grow-after" if order.index("grow") > order.index("write") else "grow-before"
        if "shrink" in order:
            eff = "shrink-before" if order.index("shrink") < order.index("write") else "shrink-after"
        rows.setdefault(ev, set()).add((kind, before, after, okp, lb, eff, "grow" in order or "shrink" in order))
    return rows


def check_table(ctx, rule, F, cfg, body, label):
    rows = event_tables(ctx, F, body)
    ok_all = True
    for ev, (kind, before, after, lbreak, eff) in REF.items():
        rs = rows.get(ev, set())
        good = bool(rs)
        detail = []
        for (k, b, a, okp, lb, e, any_eff) in rs:
            if (k, b, a) != (kind, before, after) or not okp:
                good = False
            if lb is not None and lb != lbreak:
                good = False
            if any_eff and e != eff:
                good = False
            if not any_eff and eff is not None and lb is not None:
                # a path with an indent configured must perform the depth bookkeeping
                good = False
            detail.append((k, b, a, lb, e))
        ok_all = ok_all and good
        ctx.ob(rule, "%s[%s]" % (label, ev), good,
               "writer row for %s must be %s %r…%r, line break afterwards %s, indentation %s; extracted %s" % (ev, kind, before, after, lbreak, eff, sorted(detail, key=str)), config=cfg)
    extra = set(rows) - set(REF)
    ctx.ob(rule, "%s:exhaustive" % label, not extra and set(rows) == set(REF), "every Event variant has exactly one writer row: %s" % sorted(rows), config=cfg)
    return rows


def wrapped_seq(ctx, F, body):
    """Set of output sequences of write_wrapped*: ('nl', 'indent', 'before', 'value', 'after') names per Ok path."""
    out = set()
    for p in ctx.paths(body):
        r = ret_of(p)
        if r is None or ends(p) != "ret" or (r[0] == "call" and name_is(r[2], "from_residual")) or is_error_exit(p):
            continue
        seq = []
        for c in calls(p):
            nm = sym.short(c[2]).split("::")[-1]
            if nm == "write_all":
                a = c[3][1]
                lit = bytes_literal(a)
                if lit is not None:
                    seq.append(lit.decode())
                elif has_subterm(a, lambda s: call_is(s, "current")):
                    seq.append("{indent}")
                else:
                    seq.append("{?}")
            elif nm in ("write", "write_async"):
                a = strip_wrappers(c[3][1])
                name = a[2] if a[0] == "arg" else upvar_of(body, a)
                seq.append("{%s}" % name if name else "{?}")
            elif nm in ("write_indent", "write_indent_async"):
                seq.append("{write_indent}")
        slb = decision_on(p, lambda t: ends_with_fields(t, "should_line_break"))
        ind = decision_on(p, lambda t: t[0] == "discr" and ends_with_fields(t[1], "indent"))
        out.add((ind == 1, None if slb is None else slb != 0, tuple(seq)))
    # `{write_indent}` is the helper that writes "\n" + current indent when an indent is configured (checked by
    # check_write_indent); under `indent is Some` it expands to exactly that
    exp = set()
    for ind, slb, seq in out:
        if "{write_indent}" in seq:
            seq = tuple(y for x in seq for y in (("\n", "{indent}") if x == "{write_indent}" else (x,)))
            exp.add((True, True if slb is None else slb, seq))
        else:
            exp.add((ind, slb, seq))
    out = exp
    # merge the `matches!(self.indent, Some(ref i) if i.should_line_break)` spelling: (indent None) and (Some, no break) rows
    return out


def check_write_indent(ctx, rule, F, cfg, body, label):
    """write_indent*: writes "\n" + current indent iff an indent is configured, nothing otherwise"""
    rows = set()
    for p in ctx.paths(body):
        r = ret_of(p)
        if r is None or ends(p) != "ret" or is_error_exit(p):
            continue
        seq = []
        for c in calls(p):
            if sym.short(c[2]).split("::")[-1] == "write_all":
                a = c[3][1]
                lit = bytes_literal(a)
                seq.append(lit.decode() if lit is not None else ("{indent}" if has_subterm(a, lambda s: call_is(s, "current")) else "{?}"))
        ind = decision_on(p, lambda t: t[0] == "discr" and ends_with_fields(t[1], "indent"))
        rows.add((ind == 1, tuple(seq)))
    ctx.ob(rule, label, rows == {(True, ("\n", "{indent}")), (False, ())}, "writes newline + current indent iff an indent is configured: %s" % sorted(rows, key=str), config=cfg)
