"""Loading of the fact file written by the qxfacts driver and basic CFG utilities."""
import json, os, re, subprocess, sys, shutil, tempfile, time, hashlib

VERIF = os.path.dirname(os.path.dirname(os.path.abspath(__file__)))
REPO = os.environ.get("VERIF_REPO", "/repo")
DRIVER = os.path.join(VERIF, "driver", "target", "release", "qxfacts")

CONFIGS = {
    # name -> cargo feature arguments
    "F_all": ["--features", "serialize,encoding,async-tokio,overlapped-lists,serde-types"],
    "F_noenc": ["--features", "serialize,async-tokio,overlapped-lists,serde-types"],
    "F_def": [],
    "F_nool": ["--features", "serialize"],
}


def _load_argnames():
    p = os.path.join(os.path.dirname(os.path.abspath(__file__)), "argnames.json")
    if os.environ.get("VERIF_NO_ARGNAMES") or not os.path.exists(p):
        return {}
    with open(p) as f:
        return json.load(f)


ARGNAMES = _load_argnames()


class Body:
    def __init__(self, facts, j):
        self.facts = facts
        self.j = j
        self.path = j["path"]
        self.blocks = j["blocks"]
        self.locals = j["locals"]
        self.argc = j["argc"]
        self.names = {}
        for name, pl in j["dbg"]:
            if not pl[1] and pl[0] not in self.names:
                self.names[pl[0]] = name
        # closures: names of captured variables by upvar index (`_1.N` / `(*_1).N`)
        self.upvars = {}
        for name, pl in j["dbg"]:
            if pl[0] == 1 and pl[1]:
                pr = [e for e in pl[1] if e != "*"]
                if pr and isinstance(pr[0], dict) and "f" in pr[0] and pr[0]["f"] not in self.upvars:
                    self.upvars[pr[0]["f"]] = name
        # Parameter (and captured-variable) names are role labels for the rules, not identifiers the author is bound
        # to: they are taken from the reference table recorded on the tree the rules were written against whenever the
        # function still has the same number of parameters, so that renaming a parameter changes nothing.
        ref = ARGNAMES.get(self.path)
        if ref and ref.get("argc") == self.argc:
            for l, nm in ref.get("args", {}).items():
                if int(l) in self.names:
                    self.names[int(l)] = nm
            if len(ref.get("upvars", {})) == len(self.upvars):
                for k, nm in ref.get("upvars", {}).items():
                    if int(k) in self.upvars:
                        self.upvars[int(k)] = nm
        self._succ = None
        self._pred = None

    # ---- CFG (cleanup blocks are never reachable: unwind edges are not recorded) ----
    def succs(self, b):
        if self._succ is None:
            self._succ = [self._term_succs(blk["term"]) for blk in self.blocks]
        return self._succ[b]

    @staticmethod
    def _term_succs(t):
        k = t["k"]
        if k in ("goto", "drop", "assert", "yield"):
            return [t["t"]]
        if k == "switch":
            out = []
            for _, bb in t["vals"]:
                if bb not in out:
                    out.append(bb)
            if t["else"] not in out:
                out.append(t["else"])
            return out
        if k == "call":
            return [] if t["t"] is None else [t["t"]]
        return []

    def preds(self, b):
        if self._pred is None:
            self._pred = [[] for _ in self.blocks]
            for i in range(len(self.blocks)):
                for s in self.succs(i):
                    self._pred[s].append(i)
        return self._pred[b]

    def reachable(self, start=0, avoid=()):
        seen = set()
        st = [start]
        avoid = set(avoid)
        while st:
            b = st.pop()
            if b in seen or b in avoid:
                continue
            seen.add(b)
            st.extend(self.succs(b))
        return seen

    def dominators(self):
        """dom[b] = set of blocks dominating b (over blocks reachable from 0)."""
        reach = sorted(self.reachable())
        full = set(reach)
        dom = {b: set(full) for b in reach}
        dom[0] = {0}
        changed = True
        while changed:
            changed = False
            for b in reach:
                if b == 0:
                    continue
                ps = [p for p in self.preds(b) if p in full]
                new = set(full)
                for p in ps:
                    new &= dom[p]
                new.add(b)
                if new != dom[b]:
                    dom[b] = new
                    changed = True
        return dom

    def exits(self):
        return [i for i in self.reachable() if self.blocks[i]["term"]["k"] == "return"]

    def postdominators(self):
        """pdom[b] = blocks that lie on every path from b to a `return`."""
        reach = self.reachable()
        exits = [b for b in reach if self.blocks[b]["term"]["k"] == "return"]
        # blocks that can reach an exit
        can = set()
        st = list(exits)
        while st:
            b = st.pop()
            if b in can:
                continue
            can.add(b)
            st.extend(p for p in self.preds(b) if p in reach)
        full = set(can)
        pd = {b: set(full) for b in can}
        for e in exits:
            pd[e] = {e}
        changed = True
        while changed:
            changed = False
            for b in can:
                if b in exits:
                    continue
                ss = [s for s in self.succs(b) if s in can]
                new = set(full)
                for s in ss:
                    new &= pd[s]
                new.add(b)
                if new != pd[b]:
                    pd[b] = new
                    changed = True
        return pd

    # ---- convenience ----
    def span(self, idx):
        return self.facts.spans[idx]

    def loc(self, idx):
        s = self.facts.spans[idx]
        return s["root"] if s["bt"] else s["at"]

    def calls(self):
        """Yield (block index, terminator) for every call in a reachable block."""
        reach = self.reachable()
        for i, blk in enumerate(self.blocks):
            if i in reach and blk["term"]["k"] == "call":
                yield i, blk["term"]

    def stmts(self):
        reach = self.reachable()
        for i, blk in enumerate(self.blocks):
            if i in reach:
                for st in blk["stmts"]:
                    yield i, st

    def local_name(self, l):
        return self.names.get(l, "_%d" % l)


def callee_of(term):
    """(declared path, resolved path) of a call terminator; (None, None) if indirect."""
    f = term["f"]
    if "k" in f and "fn" in f["k"]:
        k = f["k"]
        return k["fn"], k.get("rfn", k["fn"])
    return None, None


def strip_generics(p):
    """Drop turbofish groups: `a::B::<'a, R>::f` -> `a::B::f`; `<impl ..>` groups are kept."""
    out = []
    i = 0
    n = len(p)
    while i < n:
        if p.startswith("::<", i) and not p.startswith("::<impl ", i) and not p.startswith("::<dyn ", i):
            d = 0
            j = i + 2
            while j < n:
                if p[j] == "<":
                    d += 1
                elif p[j] == ">" and p[j - 1] != "-":
                    d -= 1
                    if d == 0:
                        break
                j += 1
            i = j + 1
            continue
        out.append(p[i])
        i += 1
    return "".join(out)


class Facts:
    def __init__(self, path, config=None):
        with open(path) as f:
            self.j = json.load(f)
        self.config = config
        self.spans = self.j["spans"]
        self.bodies = [Body(self, b) for b in self.j["bodies"]]
        self.by_raw = {b.path: b for b in self.bodies}
        self.by_path = {}
        for b in self.bodies:
            self.by_path.setdefault(strip_generics(b.path), []).append(b)
        self.fns = {strip_generics(f["path"]): f for f in self.j["fns"]}
        self.adts = {a["path"]: a for a in self.j["adts"]}
        self.features = self.j["features"]

    def body(self, path):
        """Unique body whose generic-stripped path equals or ends with `path`."""
        if path in self.by_path and len(self.by_path[path]) == 1:
            return self.by_path[path][0]
        cands = [b for p, bs in self.by_path.items() for b in bs if p == path or p.endswith("::" + path)]
        if len(cands) == 1:
            return cands[0]
        if not cands:
            return None
        raise KeyError("ambiguous body %s: %s" % (path, [c.path for c in cands]))

    def closure(self, raw_path):
        """Body of a closure named by its raw def path (as found in closure terms)."""
        return self.by_raw.get(raw_path)

    def bodies_matching(self, regex):
        r = re.compile(regex)
        return [b for b in self.bodies if r.search(strip_generics(b.path))]

    def bodies_with(self, *subs, end=None, closures=False):
        """Bodies whose path contains every substring (and ends with `end`); closures excluded unless asked."""
        out = []
        for b in self.bodies:
            p = strip_generics(b.path)
            if not closures and "{closure" in p:
                continue
            if end is not None and not (p.endswith("::" + end) or p == end):
                continue
            if all(x in p for x in subs):
                out.append(b)
        return out

    def adt(self, path):
        if path in self.adts:
            return self.adts[path]
        cands = [a for p, a in self.adts.items() if p.endswith("::" + path)]
        return cands[0] if len(cands) == 1 else None

    def variants(self, path):
        a = self.adt(path)
        return [v["name"] for v in a["variants"]] if a else None


def tree_digest():
    """Digest of the analysed sources (recorded in the evidence; not a cache key)."""
    h = hashlib.sha256()
    for root, dirs, files in os.walk(os.path.join(REPO, "src")):
        dirs.sort()
        for fn in sorted(files):
            p = os.path.join(root, fn)
            h.update(p.encode())
            with open(p, "rb") as f:
                h.update(f.read())
    for fn in ("Cargo.toml", "Cargo.lock"):
        p = os.path.join(REPO, fn)
        if os.path.exists(p):
            with open(p, "rb") as f:
                h.update(f.read())
    return h.hexdigest()[:16]


def nightly_sysroot():
    return subprocess.check_output(["rustc", "+nightly", "--print", "sysroot"], text=True).strip()


def extract(config, workdir):
    """Compile /repo's working tree through the driver for one feature configuration.

    A persistent target directory under /verif/.cache keeps the *dependencies* compiled;
    the fingerprints of the workspace member are deleted first so that cargo must invoke
    the driver again, and the fact file is removed before and required after the run."""
    if not os.path.exists(DRIVER):
        raise RuntimeError("driver not built: run MANIFEST.setup_cmd (cargo +nightly build --release in /verif/driver)")
    out = os.path.join(workdir, "facts-%s.json" % config)
    if os.path.exists(out):
        os.remove(out)
    tdir = os.path.join(os.environ.get("VERIF_CACHE", os.path.join(VERIF, ".cache")), "target-" + config)
    fp = os.path.join(tdir, "debug", ".fingerprint")
    if os.path.isdir(fp):
        for d in os.listdir(fp):
            if d.startswith("quick-xml-") or d.startswith("quick_xml-"):
                shutil.rmtree(os.path.join(fp, d), ignore_errors=True)
    env = dict(os.environ)
    env["LD_LIBRARY_PATH"] = nightly_sysroot() + "/lib:" + env.get("LD_LIBRARY_PATH", "")
    env["RUSTFLAGS"] = "-Awarnings"
    env["RUSTC_WORKSPACE_WRAPPER"] = DRIVER
    env["QXFACTS_OUT"] = out
    env["CARGO_TARGET_DIR"] = tdir
    env["CARGO_NET_OFFLINE"] = "true"
    env.pop("RUSTC_WRAPPER", None)
    cmd = ["cargo", "+nightly", "check", "--offline", "--lib", "--quiet"] + CONFIGS[config]
    p = subprocess.run(cmd, cwd=REPO, env=env, stdout=subprocess.PIPE, stderr=subprocess.STDOUT, text=True)
    if p.returncode != 0 or not os.path.exists(out):
        sys.stderr.write(p.stdout[-4000:])
        raise RuntimeError("fact extraction failed for %s (exit %s)" % (config, p.returncode))
    return out


def load(config, workdir):
    t = time.time()
    p = extract(config, workdir)
    f = Facts(p, config)
    f.extract_s = time.time() - t
    return f
