"""Scan-window rules: a loop that searches a moving window of a buffer and then indexes the *buffer* with a position
found in the *window* must add the window's current offset.  Shared by C01 (comments are lexed as the grammar says
also under check_comments) and C16 (check_comments only adds an error for comments that contain `--`)."""
from collections import Counter

import sym
from engine import (calls, call_is, decision_on, ends, has_subterm, is_self_field, name_is, strip_wrappers, variant_of)


def linear(t):
    """Flatten nested additions: returns (constant, Counter{atom term: multiplicity})."""
    t = strip_wrappers(t) if t[0] in ("cast",) else t
    if t[0] == "c" and isinstance(t[2], int) and not isinstance(t[2], bool):
        return t[2], Counter()
    if t[0] == "bin" and t[1] in ("Add", "AddWithOverflow", "AddUnchecked"):
        c1, a1 = linear(t[2])
        c2, a2 = linear(t[3])
        return c1 + c2, a1 + a2
    if t[0] == "cast":
        return linear(t[1])
    return 0, Counter([t])


def show_lin(l):
    if l is None:
        return "?"
    return " + ".join([sym.show(a, 3) + ("*%d" % n if n != 1 else "") for a, n in l[1].items()] + ([str(l[0])] if l[0] or not l[1] else []))


def lin_sub(a, b):
    """a - b over linear forms; None when b has an atom a lacks."""
    ca, xa = a
    cb, xb = b
    r = Counter(xa)
    r.subtract(xb)
    if any(v < 0 for v in r.values()):
        return None
    return ca - cb, +r


def window_of(t):
    """`&base[s..e]` / `&base[s..]` -> (base term, linear start) ; anything else None."""
    t = strip_wrappers(t)
    if t[0] == "call" and name_is(t[2], "index") and len(t[3]) == 2:
        v = variant_of(t[3][1])
        if v and v[1] in ("Range", "RangeFrom"):
            return strip_wrappers(t[3][0]), linear(t[3][1][3][0])
    return None


def comment_scan(ctx, rule, F, cfg):
    """emit_bang, Comment arm, check_comments on: every byte compared with '-' to report DoubleHyphenInComment is the
    byte that directly follows a '-' found by the search, at the right absolute index of `buf`."""
    b = ctx.body(F, "reader::state::ReaderState::emit_bang", rule)
    if b is None:
        return
    rows = 0
    for p in ctx.paths(b):
        cc = decision_on(p, lambda t: is_self_field(t, "config", "check_comments"))
        if cc in (None, 0):
            continue
        tests = [(i, e) for i, e in enumerate(p) if e[0] == "switch" and e[2][0] == "bin" and e[2][1] == "Eq" and e[2][3] == ("c", "u8", 45)]
        if not tests:
            continue
        searches = [c for c in calls(p) if name_is(c[2], "memchr", "memchr_iter", "position", "find")]
        heads = [e for e in p if e[0] == "head"]
        if not searches:
            ctx.ob(rule, "emit_bang:comment-scan:idiom", False, "a byte is compared with '-' under check_comments but no search produced its index (idiom not recognised, fail closed)", config=cfg)
            return
        for i, e in tests:
            rows += 1
            # the index used: the BoundsCheck right before the comparison
            bc = [x for x in p[:i] if x[0] == "assert" and x[2] == "BoundsCheck" and x[4] is not None]
            if not bc:
                ctx.ob(rule, "emit_bang:comment-scan:idiom", False, "the compared byte is not read through an index expression (idiom not recognised, fail closed)", config=cfg)
                return
            idx = linear(bc[-1][4][1])
            # the search whose hit is used
            hit = None
            for c in searches:
                res = ("call", c[1], c[2], c[3])
                if any(has_subterm(a, lambda s: s == res) for a in idx[1]):
                    hit = c
            if hit is None:
                ctx.ob(rule, "emit_bang:comment-scan:index-from-search", False, "the inspected index %s does not involve the position the search returned" % sym.show(bc[-1][4][1]), config=cfg)
                continue
            hay = strip_wrappers(hit[3][-1])
            while hay[0] == "call" and name_is(hay[2], "iter", "deref", "as_ref"):
                hay = strip_wrappers(hay[3][0])
            ppos = [a for a in idx[1] if has_subterm(a, lambda s: s[0] == "call" and s[1] == hit[1])]
            carried = hay[0] == "phi"
            init = window_of(hay[4]) if carried and len(hay) > 4 else window_of(hay)
            if init is None:
                ctx.ob(rule, "emit_bang:comment-scan:idiom", False, "the searched window %s is not a sub-slice of the buffer (idiom not recognised, fail closed)" % sym.show(hay), config=cfg)
                return
            base, s0 = init
            want = (s0[0] + 1, s0[1] + Counter(ppos[:1]))
            detail = "inspected buf[%s]" % sym.show(bc[-1][4][1])
            if not carried:
                ok = idx == want
                ctx.ob(rule, "emit_bang:comment-scan:next-byte", ok, "fixed window starting at %d: the byte after a '-' found at p is buf[start + p + 1]; %s" % (s0[0], detail), config=cfg)
                continue
            # moving window: find how far it advances per iteration and the accumulator that tracks it
            loops = [x for x in p if x[0] == "loop"]
            adv = None
            accs = {}
            # the same loop's `continue` path carries the updates; look them up on any path of this body that reaches the back edge
            for q in ctx.paths(b):
                if ends(q) != "loop" or not q or q[-1][1] != hay[1]:
                    continue
                car = q[-1][2]
                nm = hay[3]
                if nm in car:
                    w = window_of(car[nm])
                    if w is not None and strip_wrappers(w[0]) == hay:
                        adv = w[1]
                for k2, v in car.items():
                    if k2 != nm:
                        accs[k2] = linear(v)
            if adv is None:
                ctx.ob(rule, "emit_bang:comment-scan:idiom", False, "the window is carried round the loop but its update is not `&window[d..]` (idiom not recognised, fail closed)", config=cfg)
                return
            ok = False
            why = "no loop-carried accumulator tracks the window's advance (the window moves by %s per iteration, %s)" % (show_lin(adv), detail)
            for a in idx[1]:
                if a[0] == "phi" and a[1] == hay[1] and a[3] in accs and len(a) > 4 and a[4] == ("c", "usize", 0):
                    step = lin_sub(accs[a[3]], (0, Counter([a])))
                    if step == adv and idx == (want[0], want[1] + Counter([a])):
                        ok = True
                    else:
                        why = "accumulator `%s` advances by %s, window by %s; %s" % (a[3], show_lin(step), show_lin(adv), detail)
            ctx.ob(rule, "emit_bang:comment-scan:next-byte", ok, "moving window: the inspected byte is buf[start + advanced + p + 1] with `advanced` growing exactly as the window shrinks; " + (detail if ok else why), config=cfg)
    ctx.floor(rule, "comment-scan '-' comparisons", rows, 1, config=cfg)
