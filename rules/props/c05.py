"""C05 — Namespace resolution follows the declarations in scope at each event."""
from engine import *
from facts import strip_generics, callee_of
import sym

CONFIGS_QUICK = ["F_all", "F_def"]  # every configuration whose cfg-gated code the property depends on
CONFIGS_THOROUGH = ["F_all", "F_def"]
TECHNIQUE = 'static analysis: effect pairing (scope push/pop) across the NsReader API on MIR paths, decision tables of the resolver, exact level steps, both arms of pop drop bindings, push looks at every attribute, level of the reserved bindings, compile-fail witnesses (no DerefMut), call-order rule (pop, read, process_event) for every caller of process_event'
EXPLANATION = (
    "Scope pairing across the NsReader API: every NsReader method that lets the inner reader consume the End tag of an "
    "already-pushed element (read_to_end, read_to_end_into, read_text, read_to_end_into_async) must pop the namespace "
    "scope on its success path; process_event table (Start->push, Empty->push+deferred pop, End->deferred pop, others "
    "none) and the deferred pop executed before the inner read in both read_event entry points; resolve_prefix decision "
    "table (binding has prefix x query has prefix x use_default x prefixes equal x value empty) against Namespaces in XML; "
    "innermost-first iteration; NamespaceEntry::{prefix,namespace}; push (level bump first, reserved prefix/URI error "
    "table, entries at the new level); pop (level-1, keep entries with level <= new level); default() seeds exactly the two "
    "reserved bindings at level 0 and PrefixIter starts after them, skips shadowed and unbound entries; attribute "
    "resolution never uses the default namespace (constants at the three resolve entry points); NsReader has Deref but no "
    "DerefMut to the inner reader and the field is private."
)
ASSUMPTIONS = ["Attributes iteration (C11) delivers the xmlns attributes of the start tag"]

SKIP_INNER = ("read_to_end", "read_to_end_into", "read_text", "read_to_end_into_async")


def ns_bodies(F):
    out = []
    for b in F.bodies:
        p = strip_generics(b.path)
        if "NsReader" in p and ("reader::ns_reader" in p or "reader::async_tokio" in p):
            out.append(b)
    return out


def r1_pairing(ctx):
    for cfg, F in ctx.facts.items():
        n = 0
        for b in ns_bodies(F):
            inner = [(i, t) for i, t in b.calls() if name_is(callee_of(t)[0] or "", *SKIP_INNER) and "NsReader" not in (callee_of(t)[0] or "")]
            if not inner:
                continue
            name = sym.short(strip_generics(b.path).replace("::{closure#0}", ""))
            for p in ctx.paths(b):
                cs = [(k, c) for k, c in enumerate(p) if c[0] == "call" and name_is(c[2], *SKIP_INNER) and "NsReader" not in c[2]]
                if not cs or ends(p) != "ret":
                    continue
                k, c = cs[0]
                r = ret_of(p)
                # error exit (`?` or its explicit spelling): nothing to pop
                if is_error_exit(p):
                    continue
                n += 1
                tail = p[k + 1:]
                head = p[:k]
                direct = any(x[0] == "call" and name_is(x[2], "NamespaceResolver::pop") for x in tail)
                scheduled = any(x[0] == "store" and ends_with_fields(x[2], "pending_pop") and x[3] == ("c", "bool", True) for x in tail)
                flushed = any(x[0] == "call" and name_is(x[2], "NsReader::pop") for x in head)
                # the deferred pop is one boolean: scheduling a second pop while one is pending loses a pop,
                # so scheduling is only sound after the pending one was flushed
                popped = direct or (scheduled and flushed)
                if scheduled and not flushed and not direct:
                    ctx.ob("R1", "%s:scheduled-pop-may-collapse" % name, False,
                           "%s schedules the pop of the skipped element with the single boolean `pending_pop` without first executing a pop that may already be pending (after an Empty or End event): two scope ends collapse into one and the skipped element's declarations stay in scope" % name,
                           loc=b.loc(c[4]), config=cfg)
                ctx.ob("R1", "%s:pop-after-skip" % name, popped,
                       "%s lets the inner reader consume the End tag of the element whose scope was pushed by its Start event, but its success path neither pops the namespace scope nor schedules the pop (declarations of the skipped element stay in scope)" % name,
                       loc=b.loc(c[4]), config=cfg)
        ctx.floor("R1", "NsReader skip-family success paths", n, 4 if "async-tokio" in F.features else 3, config=cfg)


def event_variant(F, idx):
    vs = F.variants("events::Event")
    return vs[idx] if vs and isinstance(idx, int) and idx < len(vs) else None


def r2_process_event(ctx):
    for cfg, F in ctx.facts.items():
        b = ctx.body(F, "reader::ns_reader::NsReader::process_event", "R2")
        if b is None:
            continue
        rows = {}
        for p in ctx.paths(b):
            if ends(p) != "ret":
                continue
            okv = decision_on(p, lambda t: t[0] == "discr" and t[1][0] == "arg" and t[1][2] == "event")
            ev = decision_on(p, lambda t: t[0] == "discr" and t[1][0] == "pl" and root_of(t[1])[0] == "arg" and root_of(t[1])[2] == "event")
            r = ret_of(p)
            if is_error_exit(p):
                if okv == 1 and not any(name_is(c[2], "NamespaceResolver::push", "NamespaceResolver::pop") for c in calls(p)) and not any(e[0] == "store" for e in p):
                    rows["Err"] = (0, False, 0)   # `event?`: the reader's error passes through untouched
                continue  # push failed: error returned, nothing else to do
            if okv == 0 and isinstance(ev, int):
                var = event_variant(F, ev)
            elif okv == 0:
                var = "other"
            else:
                var = "Err"
            pushes = len([c for c in calls(p) if name_is(c[2], "NamespaceResolver::push")])
            pend = any(e[0] == "store" and ends_with_fields(e[2], "pending_pop") and e[3] == ("c", "bool", True) for e in p)
            pops = len([c for c in calls(p) if name_is(c[2], "NamespaceResolver::pop")])
            rows[var] = (pushes, pend, pops)
            want = {"Start": (1, False, 0), "Empty": (1, True, 0), "End": (0, True, 0)}.get(var, (0, False, 0))
            ctx.ob("R2", "process_event[%s]" % var, (pushes, pend, pops) == want,
                   "effect on the scope stack (pushes, deferred pop, pops) must be %s, is %s" % (want, (pushes, pend, pops)), config=cfg)
            if var in ("Start", "Empty", "End"):
                rv = describe_ret(r, 1)[0]
                same_param = strip_wrappers(r)[0] == "arg" and strip_wrappers(r)[2] == "event"
                if r[0] == "agg" and r[2] == "Ok" and r[3]:
                    pay = strip_wrappers(r[3][0])
                    if pay[0] == "pl" and root_of(pay)[0] == "arg" and root_of(pay)[2] == "event" and not any(isinstance(x, tuple) and x[0] == "f" and x[2] != "0" for x in pay[2]):
                        same_param = True   # Ok(<the Ok payload of the parameter>)
                ctx.ob("R2", "process_event[%s]:passes-event" % var, rv[:2] == ("Ok", var) or same_param, "the event is returned unchanged (%s)" % (rv if not same_param else "the parameter itself",), config=cfg)
        ctx.floor("R2", "rows of process_event", len(rows), 5, config=cfg)
        # the deferred pop runs before the inner read
        entries = [ctx.body(F, "reader::ns_reader::NsReader::read_event_impl", "R2")]
        if "async-tokio" in F.features:
            entries += [x for x in F.bodies_matching(r"async_tokio::<impl quick_xml::reader::ns_reader::NsReader<R>>::read_event_into_async::\{closure#0\}$")]
        # ... and in whatever else hands events to process_event (who-may-call: every caller obeys the same order)
        for cb, _i, _t in callers_of(F, "reader::ns_reader::NsReader::process_event"):
            if cb not in entries and not is_derive(cb):
                entries.append(cb)
        for e in entries:
            if e is None:
                continue
            nm = sym.short(strip_generics(e.path).replace("::{closure#0}", ""))
            good = 0
            for p in ctx.paths(e):
                if ends(p) != "ret":
                    continue
                names = [sym.short(c[2]) for c in calls(p) if not name_is(c[2], "into_future", "Pin::new_unchecked", "get_context", "Future>::poll")]
                try:
                    i_pop = [i for i, x in enumerate(names) if x.endswith("NsReader::pop")][0]
                    i_read = [i for i, x in enumerate(names) if "read_event" in x][0]
                    i_proc = [i for i, x in enumerate(names) if x.endswith("process_event")][0]
                    ok = i_pop < i_read < i_proc
                except IndexError:
                    ok = False
                good += 1 if ok else 0
                ctx.ob("R2", "%s:order" % nm, ok, "deferred pop, then inner read, then process_event (calls: %s)" % names, config=cfg)
        pb = ctx.body(F, "reader::ns_reader::NsReader::pop", "R2")
        if pb is not None:
            for p in ctx.paths(pb):
                if ends(p) != "ret":
                    continue
                flag = decision_on(p, lambda t: ends_with_fields(t, "pending_pop"))
                pops = len([c for c in calls(p) if name_is(c[2], "NamespaceResolver::pop")])
                cleared = any(e[0] == "store" and ends_with_fields(e[2], "pending_pop") and e[3] == ("c", "bool", False) for e in p)
                ctx.ob("R2", "NsReader::pop[pending=%s]" % (flag != 0), (pops == 1 and cleared) if flag != 0 else (pops == 0), "pops exactly once and clears the flag iff a pop is pending", config=cfg)
        rb = ctx.body(F, "reader::ns_reader::NsReader::resolve_event", "R2")
        if rb is not None:
            for p in ctx.paths(rb):
                if ends(p) != "ret":
                    continue
                ev = decision_on(p, lambda t: t[0] == "discr" and t[1][0] == "pl" and root_of(t[1])[0] == "arg" and root_of(t[1])[2] == "event")
                okv = decision_on(p, lambda t: t[0] == "discr" and t[1][0] == "arg")
                var = event_variant(F, ev) if okv == 0 and isinstance(ev, int) else ("other" if okv == 0 else "Err")
                finds = [c for c in calls(p) if name_is(c[2], "NamespaceResolver::find")]
                r = ret_of(p)
                if var in ("Start", "Empty", "End"):
                    ctx.ob("R2", "resolve_event[%s]" % var, len(finds) == 1 and has_subterm(finds[0][3][1], lambda s: call_is(s, "name")), "element events are resolved through find(e.name())", config=cfg)
                elif var == "other":
                    ctx.ob("R2", "resolve_event[other]", not finds and has_subterm(r, lambda s: s[0] == "agg" and s[2] == "Unbound"), "non-element events are Unbound", config=cfg)


def r3_resolver(ctx):
    for cfg, F in ctx.facts.items():
        clo = F.closure("quick_xml::name::NamespaceResolver::resolve_prefix::{closure#0}")
        rpb = F.body("name::NamespaceResolver::resolve_prefix")
        # one step of the search over the bindings: the predicate closure of find_map, or the body of an explicit loop
        steps = []
        if clo is not None and any(name_is(callee_of(t)[0] or "", "NamespaceEntry::prefix") for _, t in clo.calls()):
            for p in ctx.paths(clo):
                if ends(p) == "ret":
                    r = ret_of(p)
                    steps.append((p, "skip" if r[0] == "agg" and r[2] == "None" else "value", r[3][0] if r[0] == "agg" and r[2] == "Some" and r[3] else r, clo))
        elif rpb is not None:
            for p in ctx.paths(rpb):
                hd = [i for i, e in enumerate(p) if e[0] == "head"]
                if not hd:
                    continue
                seg = p[hd[0]:]
                item = [e for e in seg if e[0] == "switch" and e[2][0] == "discr" and call_is(e[2][1], "next")]
                if not item or item[-1][3] != 1:
                    continue  # exhausted: checked below
                if ends(p) == "loop":
                    steps.append((seg, "skip", None, None))
                elif ends(p) == "ret":
                    steps.append((seg, "value", ret_of(p), None))
        if not steps:
            ctx.ob("R3", "anchor:resolve_prefix closure", False, "anchor-missing: neither a find_map predicate nor a loop over the bindings was recognised in resolve_prefix", config=cfg)
        else:
            def is_var(t, nm, cb):
                if cb is not None:
                    return upvar_of(cb, t) == nm
                t0 = strip_wrappers(t)
                return t0[0] == "arg" and t0[2] == nm
            rows = 0
            for p, kind, v, cb in steps:
                rows += 1
                bp = decision_on(p, lambda t: t[0] == "discr" and call_is(t[1], "NamespaceEntry::prefix"))
                qp = decision_on(p, lambda t: t[0] == "discr" and is_var(t[1], "prefix", cb))
                ud = decision_on(p, lambda t: is_var(t, "use_default", cb))
                differ = None
                for e in p:
                    if e[0] == "switch" and e[2][0] == "call" and name_is(e[2][2], "ne", "eq"):
                        differ = (name_is(e[2][2], "ne")) == (e[3] != 0)
                empty = decision_on(p, lambda t: t[0] == "bin" and t[1] == "Eq" and ends_with_fields(t[2], "value_len") and t[3] == ("c", "usize", 0))
                if kind == "skip":
                    out = "skip"
                elif v[0] == "agg" and v[2] == "Unbound":
                    out = "Unbound"
                elif call_is(v, "NamespaceEntry::namespace"):
                    out = "entry-namespace"
                elif call_is(v, "maybe_unknown") and is_var(v[3][0], "prefix", cb):
                    out = "unknown(prefix)"
                else:
                    out = sym.show(v, 2)
                # reference (DESIGN.md A.6)
                if bp == 0 and qp == 0:
                    want = "entry-namespace" if ud not in (0, None) else ("Unbound" if ud == 0 else "?use_default untested")
                elif bp == 0 or qp == 0:
                    want = "skip"
                elif differ:
                    want = "skip"
                elif differ is None:
                    want = "?prefixes not compared"
                elif empty is None:
                    want = "?value_len untested"
                else:
                    want = "unknown(prefix)" if empty != 0 else "entry-namespace"
                site = "resolve_prefix[binding=%s,query=%s,default=%s,differ=%s,empty=%s]" % ("named" if bp else "default", "some" if qp else "none", ud, differ, empty)
                ctx.ob("R3", site, out == want, "outcome must be %s, is %s" % (want, out), config=cfg)
            ctx.floor("R3", "rows of resolve_prefix", rows, 7, config=cfg)
        # iteration order: innermost first; exhausted -> maybe_unknown(prefix)
        rp = ctx.body(F, "name::NamespaceResolver::resolve_prefix", "R3")
        if rp is not None:
            for p in ctx.paths(rp):
                if ends(p) != "ret":
                    continue
                names = call_names(p)
                ok = any(x.endswith("rev") for x in names) and (any(x.endswith("find_map") for x in names) or any(x.endswith("next") for x in names))
                ctx.ob("R3", "resolve_prefix:innermost-first", ok, "bindings are searched from the innermost (iter().rev(), by find_map or by a loop): %s" % names, config=cfg)
                r = ret_of(p)
                found = decision_on(p, lambda t: t[0] == "discr" and call_is(t[1], "find_map"))
                if found is None and any(x.endswith("next") for x in names):
                    # explicit loop: the exit after the iterator is exhausted is the fallback; returns from inside the loop are rows above
                    nx = [e for e in p if e[0] == "switch" and e[2][0] == "discr" and call_is(e[2][1], "next")]
                    if nx and nx[-1][3] == 0:
                        ctx.ob("R3", "resolve_prefix:exhausted", call_is(r, "maybe_unknown"), "no binding found falls back to maybe_unknown(prefix): returns %s" % sym.show(r, 3)[:80], config=cfg)
                    continue
                if found == 0:
                    ctx.ob("R3", "resolve_prefix:exhausted", call_is(r, "maybe_unknown"), "no binding found falls back to maybe_unknown(prefix): returns %s" % sym.show(r, 3)[:80], config=cfg)
                elif found == 1:
                    ctx.ob("R3", "resolve_prefix:found", r[0] == "pl" and call_is(r[1], "find_map"), "a binding found by the search is the result", config=cfg)
                else:
                    # the search result is handed to a combinator the engine does not model: it must be unwrap_or_else(maybe_unknown)
                    fb = [F.closure(a[1]) for a in (r[3] if r[0] == "call" else ()) if a[0] == "closure"]
                    ok = call_is(r, "unwrap_or_else") and any(b2 is not None and any(name_is(callee_of(t)[0] or "", "maybe_unknown") for _, t in b2.calls()) for b2 in fb)
                    ctx.ob("R3", "resolve_prefix:exhausted", ok, "no binding found falls back to maybe_unknown(prefix)", config=cfg)
        mu = ctx.body(F, "name::NamespaceResolver::maybe_unknown", "R3")
        if mu is not None:
            for p in ctx.paths(mu):
                if ends(p) != "ret":
                    continue
                d = decision_on(p, lambda t: t[0] == "discr")
                r = ret_of(p)
                ctx.ob("R3", "maybe_unknown[%s]" % ("some" if d == 1 else "none"), (r[0] == "agg" and r[2] == ("Unknown" if d == 1 else "Unbound")), "prefix present -> Unknown(prefix), absent -> Unbound", config=cfg)
        # NamespaceEntry::namespace / prefix
        ns = ctx.body(F, "name::NamespaceEntry::namespace", "R3")
        if ns is not None:
            for p in ctx.paths(ns):
                if ends(p) != "ret":
                    continue
                e = decision_on(p, lambda t: t[0] == "bin" and t[1] == "Eq" and ends_with_fields(t[2], "value_len"))
                r = ret_of(p)
                ctx.ob("R3", "NamespaceEntry::namespace[empty=%s]" % (e != 0), r[0] == "agg" and r[2] == ("Unbound" if e != 0 else "Bound"), "an empty value is Unbound (xmlns=\"\"), otherwise Bound", config=cfg)
        pf = ctx.body(F, "name::NamespaceEntry::prefix", "R3")
        if pf is not None:
            for p in ctx.paths(pf):
                if ends(p) != "ret":
                    continue
                e = decision_on(p, lambda t: t[0] == "bin" and t[1] == "Eq" and ends_with_fields(t[2], "prefix_len"))
                r = ret_of(p)
                ctx.ob("R3", "NamespaceEntry::prefix[len0=%s]" % (e != 0), r[0] == "agg" and r[2] == ("None" if e != 0 else "Some"), "prefix_len 0 is the default-namespace entry", config=cfg)
        # the pre-bound xml / xmlns entries must never be popped: their level is not above the initial nesting level
        for db in F.bodies_with("name::NamespaceResolver", "Default", end="default"):
            lv = set()
            init = None
            for p in ctx.paths(db):
                for c in calls(p):
                    if name_is(c[2], "Vec::push") and c[3][1][0] == "agg" and c[3][1][1].endswith("NamespaceEntry"):
                        ad = F.adt("quick_xml::name::NamespaceEntry")
                        names = [f["name"] for f in ad["variants"][0]["fields"]] if ad else []
                        if "level" in names:
                            lv.add(strip_wrappers(c[3][1][3][names.index("level")])[2])
                r = ret_of(p)
                if r is not None and r[0] == "agg":
                    ad = F.adt("quick_xml::name::NamespaceResolver")
                    names = [f["name"] for f in ad["variants"][0]["fields"]] if ad else []
                    if "nesting_level" in names:
                        init = strip_wrappers(r[3][names.index("nesting_level")])[2]
            ctx.ob("R3", "reserved-bindings:level", bool(lv) and init is not None and all(isinstance(x, int) and x <= init for x in lv), "xml/xmlns are bound at a level (%s) not above the initial nesting level (%s), so no pop() removes them" % (sorted(lv, key=str), init), config=cfg)
        # pop
        pb = ctx.body(F, "name::NamespaceResolver::pop", "R3")
        if pb is not None:
            dec_first = False
            for p in ctx.paths(pb):
                st = [e for e in p if e[0] == "store" and ends_with_fields(e[2], "nesting_level")]
                if st and st[0][3][0] == "pl" or (st and has_subterm(st[0][3], lambda s: s[0] == "bin" and s[1].startswith("Sub") and s[3] == ("c", "i32", 1))):
                    dec_first = True
            ctx.ob("R3", "pop:level-1", dec_first, "pop decrements nesting_level by one", config=cfg)

            def step_of(p, op):
                st = [e for e in p if e[0] == "store" and ends_with_fields(e[2], "nesting_level")]
                if len(st) != 1:
                    return "%d stores" % len(st)
                v = strip_wrappers(st[0][3])
                if v[0] == "bin" and v[1] == op and ends_with_fields(strip_wrappers(v[2]), "nesting_level") and strip_wrappers(v[3])[0] == "c":
                    return strip_wrappers(v[3])[2]
                return sym.show(v, 2)
            steps = {step_of(p, "Sub") for p in ctx.paths(pb) if ends(p) == "ret"}
            ctx.ob("R3", "pop:step", steps == {1}, "every path of pop() lowers nesting_level by exactly 1 (push raises it by exactly 1): %s" % sorted(steps, key=str), config=cfg)
            # both outcomes of the search drop every binding above the new level
            arms = {}
            for p in ctx.paths(pb):
                if ends(p) != "ret":
                    continue
                d = None
                for e in p:
                    if e[0] == "switch" and e[2][0] == "discr" and call_is(e[2][1], "rposition"):
                        d = e[3] if isinstance(e[3], int) else ({0, 1} - set(e[4])).pop() if len(set(e[4])) == 1 and set(e[4]) <= {0, 1} else None
                cs = [(sym.short(c[2]).split("::")[-1], c) for c in calls(p) if name_is(c[2], "clear", "truncate", "drain", "retain") and ends_with_fields(strip_wrappers(c[3][0]), "bindings")]
                if d == 0:
                    arms["none-valid"] = arms.get("none-valid", True) and any(n == "clear" or (n == "truncate" and strip_wrappers(c[3][1]) == ("c", "usize", 0)) for n, c in cs)
                elif d == 1:
                    # nothing to drop when the last valid binding is the last one; otherwise truncate right after it
                    good = [n == "truncate" and has_subterm(c[3][1], lambda s2: s2[0] == "pl" and call_is(s2[1], "rposition")) for n, c in cs]
                    arms["some-valid"] = arms.get("some-valid", False) or (bool(good) and all(good))
                    if cs and not all(good):
                        arms["some-valid:other-edit"] = False
                else:
                    arms["undecided"] = any(n == "retain" for n, c in cs)
            ctx.ob("R3", "pop:drops-bindings", bool(arms) and all(arms.values()) and ("undecided" in arms or {"none-valid", "some-valid"} <= set(arms)),
                   "when no binding is valid any more all are cleared, otherwise the list is truncated after the last valid one: %s" % arms, config=cfg)
            pc = F.closure("quick_xml::name::NamespaceResolver::pop::{closure#0}")
            ok = False
            if pc is not None:
                for p in sym.walk(pc):
                    r = ret_of(p)
                    # canonical form of `n.level <= current_level` is `current_level >= n.level`
                    if r is not None and r[0] == "bin" and r[1] == "Ge" and ends_with_fields(r[3], "level") and upvar_of(pc, r[2]) is not None:
                        ok = True
            ctx.ob("R3", "pop:retain-predicate", ok, "entries kept are those with level <= new level (operator and operand order)", config=cfg)
            ok2 = any(any(name_is(c[2], "rposition") for c in calls(p)) for p in ctx.paths(pb))
            ctx.ob("R3", "pop:from-the-back", ok2, "the last still-valid entry is searched from the back", config=cfg)
        # push: level bump first; reserved table
        pu = ctx.body(F, "name::NamespaceResolver::push", "R3")
        if pu is not None:
            paths = ctx.paths(pu, max_paths=60000)
            errs = {}
            entries_level_ok = True
            bump_first = True
            n_entries = 0
            for p in paths:
                evs = [e for e in p if e[0] in ("store", "call")]
                if evs:
                    f0 = evs[0]
                    if not (f0[0] == "store" and ends_with_fields(f0[2], "nesting_level")):
                        bump_first = False
                for c in calls(p):
                    if name_is(c[2], "Vec::push") and ends_with_fields(c[3][0], "bindings"):
                        n_entries += 1
                        a = c[3][1]
                        lvl = a[3][3] if a[0] == "agg" and len(a[3]) == 4 else None
                        if lvl is None or not has_subterm(lvl, lambda s: s[0] == "pl" and ends_with_fields(s, "nesting_level")) and not has_subterm(lvl, lambda s: s[0] == "bin"):
                            entries_level_ok = False
                r = ret_of(p)
                if r is not None:
                    rv = describe_ret(r, 1)[0]
                    if rv[:1] == ("Err",):
                        lits = []
                        for e in p:
                            if e[0] == "switch" and e[3] != "else":
                                pass
                        errs.setdefault(rv[1], 0)
                        errs[rv[1]] += 1
            ctx.ob("R3", "push:level-first", bump_first, "nesting_level += 1 precedes every binding", config=cfg)
            # every attribute of the tag is looked at: a successful return happens only when the attribute iterator is
            # exhausted or yields a malformed attribute, never after a well-formed one
            early = []
            okrets = 0
            for p in paths:
                r = ret_of(p)
                if r is None or ends(p) != "ret" or describe_ret(r, 0)[0][:1] != ("Ok",):
                    continue
                okrets += 1
                nx = [e for e in p if e[0] == "switch" and e[2][0] == "discr" and call_is(e[2][1], "next")]
                item = [e for e in p if e[0] == "switch" and e[2][0] == "discr" and e[2][1][0] == "pl" and call_is(e[2][1][1], "next")]
                exhausted = bool(nx) and nx[-1][3] in (0,) or (bool(nx) and nx[-1][3] == "else" and 0 not in nx[-1][4])
                malformed = bool(item) and (item[-1][3] == 1 or (item[-1][3] == "else" and 1 not in item[-1][4]))
                if not (exhausted or malformed):
                    early.append(sorted({sym.show(e[2], 1)[:50] + "=" + str(e[3]) for e in p if e[0] == "switch"})[-2:])
            ctx.ob("R3", "push:all-attributes", okrets >= 1 and not early, "push() returns Ok only after the last attribute (or at a malformed one): Ok returns %d, returning after a well-formed attribute: %s" % (okrets, early[:2]), config=cfg)
            psteps = {step_of(p, "Add") for p in paths if ends(p) in ("ret", "loop")} if pb is not None else set()
            ctx.ob("R3", "push:step", psteps == {1}, "every path of push() raises nesting_level by exactly 1: %s" % sorted(psteps, key=str)[:4], config=cfg)
            ctx.ob("R3", "push:entry-level", entries_level_ok and n_entries >= 2, "new entries carry the new nesting level (entries on paths: %d)" % n_entries, config=cfg)
            ctx.ob("R3", "push:reserved-errors", set(errs) == {"InvalidXmlPrefixBind", "InvalidXmlnsPrefixBind", "InvalidPrefixForXml", "InvalidPrefixForXmlns"},
                   "the four reserved prefix/namespace errors are raised: %s" % sorted(errs), config=cfg)
            # attribute iteration without duplicate checks
            wc = [c for p in paths[:50] for c in calls(p) if name_is(c[2], "with_checks")]
            ctx.ob("R3", "push:with_checks(false)", bool(wc) and wc[0][3][1] == ("c", "bool", False), "declarations are collected without duplicate checking", config=cfg)
        # reserved constants and default()
        consts = {}
        for b in F.bodies:
            if b.j["kind"].startswith("Const") and b.path.startswith("quick_xml::name::RESERVED_NAMESPACE_"):
                for p in sym.walk(b):
                    r = ret_of(p)
                    if r is not None and r[0] == "tuple":
                        consts[b.path.split("::")[-1]] = (bytes_literal(r[1][0][3][0]), bytes_literal(r[1][1][3][0]))
        ctx.ob("R3", "reserved:xml", consts.get("RESERVED_NAMESPACE_XML") == (b"xml", b"http://www.w3.org/XML/1998/namespace"), "xml prefix is bound to the XML namespace: %s" % (consts.get("RESERVED_NAMESPACE_XML"),), config=cfg)
        ctx.ob("R3", "reserved:xmlns", consts.get("RESERVED_NAMESPACE_XMLNS") == (b"xmlns", b"http://www.w3.org/2000/xmlns/"), "xmlns prefix is bound to the xmlns namespace: %s" % (consts.get("RESERVED_NAMESPACE_XMLNS"),), config=cfg)
        it = ctx.body(F, "name::NamespaceResolver::iter", "R3")
        if it is not None:
            cur = None
            for p in ctx.paths(it):
                r = ret_of(p)
                if r is not None and r[0] == "agg" and r[1].endswith("PrefixIter"):
                    cur = r[3][1]
            df = F.bodies_with("name::NamespaceResolver", "Default", end="default")
            seeded = None
            for b in df:
                for p in ctx.paths(b):
                    for c in calls(p):
                        if name_is(c[2], "into_iter") and c[3]:
                            arr = strip_wrappers(c[3][0])
                            if arr[0] == "array":
                                seeded = len(arr[1])
                            elif arr[0] == "c":
                                seeded = str(arr[2]).count("RESERVED_NAMESPACE") or None
            ctx.ob("R3", "PrefixIter:cursor", cur is not None and cur[0] == "c" and cur[2] == 2 and (seeded in (2, None)),
                   "the prefix listing starts after the reserved bindings seeded by default() (cursor %s, seeded %s)" % (sym.show(cur) if cur else None, seeded), config=cfg)
        nx = F.bodies_with("name::PrefixIter", "Iterator", end="next")
        for b in nx:
            paths = ctx.paths(b)
            shadow = any(any(name_is(c[2], "any") for c in calls(p)) for p in paths)
            bound = any(any(e[0] == "switch" and e[2][0] == "discr" and call_is(e[2][1], "NamespaceEntry::namespace") for e in p) for p in paths)
            ctx.ob("R3", "PrefixIter:next", shadow and bound, "skips entries shadowed by a later entry with the same prefix and entries that are not Bound", config=cfg)
        ctx.ob("R3", "PrefixIter:anchor", len(nx) == 1, "PrefixIter::next found", config=cfg)


def r4_attributes(ctx):
    for cfg, F in ctx.facts.items():
        want = {"resolve_attribute": False, "resolve_element": True}
        for fn, val in want.items():
            b = ctx.body(F, "reader::ns_reader::NsReader::" + fn, "R4")
            if b is None:
                continue
            for p in ctx.paths(b):
                for c in calls(p):
                    if name_is(c[2], "NamespaceResolver::resolve"):
                        ctx.ob("R4", "NsReader::%s:use_default" % fn, c[3][2] == ("c", "bool", val), "use_default must be %s (unprefixed attributes are never in the default namespace)" % val, config=cfg)
        b = ctx.body(F, "reader::ns_reader::NsReader::resolve", "R4")
        if b is not None:
            for p in ctx.paths(b):
                for c in calls(p):
                    if name_is(c[2], "NamespaceResolver::resolve"):
                        a = c[3][2]
                        ok = a[0] == "un" and a[1] == "Not" and a[2][0] == "arg" and a[2][2] == "attribute"
                        ctx.ob("R4", "NsReader::resolve:use_default", ok, "resolve(name, attribute) passes !attribute", config=cfg)
        f = ctx.body(F, "name::NamespaceResolver::find", "R4")
        if f is not None:
            for p in ctx.paths(f):
                for c in calls(p):
                    if name_is(c[2], "resolve_prefix"):
                        ctx.ob("R4", "find:use_default", c[3][2] == ("c", "bool", True), "element names use the default namespace", config=cfg)
        r = ctx.body(F, "name::NamespaceResolver::resolve", "R4")
        if r is not None:
            for p in ctx.paths(r):
                for c in calls(p):
                    if name_is(c[2], "resolve_prefix"):
                        ctx.ob("R4", "resolve:passes-flag", c[3][2][0] == "arg" and c[3][2][2] == "use_default", "the flag is passed through unchanged", config=cfg)


def w1_no_derefmut(ctx):
    for cfg, F in ctx.facts.items():
        impls = [i for i in F.j["impls"] if "NsReader" in i["self_ty"]]
        deref = [i for i in impls if i.get("trait", "").endswith("ops::Deref")]
        derefmut = [i for i in impls if i.get("trait", "").endswith("ops::DerefMut")]
        ctx.ob("W1", "NsReader:Deref-only", len(deref) == 1 and not derefmut, "NsReader exposes the inner Reader immutably only (Deref: %d, DerefMut: %d)" % (len(deref), len(derefmut)), config=cfg)
        a = F.adt("reader::ns_reader::NsReader")
        vis = {f["name"]: f["vis"] for f in a["variants"][0]["fields"]} if a else {}
        ctx.ob("W1", "NsReader:private-fields", a is not None and all("Public" not in v for v in vis.values()), "reader / ns_resolver / pending_pop are not public: %s" % vis, config=cfg)
        # only get_mut hands out &mut to the *underlying source*, never to the Reader
        outs = []
        for fn in F.j["fns"]:
            if "NsReader" in fn.get("self_ty", "") and "&mut quick_xml::reader::Reader" in fn["sig"].split("->")[-1]:
                outs.append(fn["path"])
        ctx.ob("W1", "NsReader:no-&mut-Reader", not outs, "no NsReader method returns &mut Reader: %s" % outs, config=cfg)


RULES = [("R1", r1_pairing), ("R2", r2_process_event), ("R3", r3_resolver), ("R4", r4_attributes), ("W1", w1_no_derefmut)]


def THOROUGH_EXTRA(ctx):
    return run_witnesses(ctx, "W", ['W1NoDerefMut', 'W1bPrivateReader'])
