"""C11 — Attribute iteration yields exactly the tag's attributes or the documented error."""
from engine import *
from facts import strip_generics, callee_of
import sym

CONFIGS_QUICK = ["F_def", "F_all"]  # every configuration whose cfg-gated code the property depends on
CONFIGS_THOROUGH = ["F_def", "F_all"]
TECHNIQUE = 'static analysis: result/resume-state table extraction from MIR paths, byte-class typestate of recovery scans, who-may-construct for HTML-only items, quote table and blank predicate of the recovery scan, accessor sibling agreement, exhaustive evaluation (256 values) of every byte predicate of the tokeniser'
EXPLANATION = (
    "Result <-> resume-state table of IterState::next extracted path by path (returned item variant, documented error "
    "position operand, state written) against the AttrError documentation; HTML mode only adds acceptance (Attr::Unquoted / "
    "Attr::Empty are built only under self.html, the non-HTML siblings return the XML errors); duplicate check only under "
    "check_duplicates with slice equality of key ranges; iteration stays ended (Done -> None, every None return wrote Done "
    "or came from recover() == None); recovery scans must start strictly past the byte already classified by the state "
    "payload (byte-class typestate: SkipEqValue's payload indexes the '=', so a scan starting there with a predicate "
    "accepting '=' makes the quote arms dead) and must resume after the closing quote."
)
ASSUMPTIONS = ["(offset..).zip(slice[offset..].iter()) pairs each byte with its index"]

NEXT = "events::attributes::IterState::next"


def found_index(t):
    """t is `find(..) as Some.0.0` -> the find call term"""
    t = strip_wrappers(t)
    if t[0] == "pl" and call_is(t[1], "find"):
        return t[1]
    return None


def r1_table(ctx):
    for cfg, F in ctx.facts.items():
        b = ctx.body(F, NEXT, "R1")
        if b is None:
            continue
        rows = 0
        kinds = set()
        inlined_q = set()
        for p in ctx.paths(b, max_paths=60000):
            if ends(p) != "ret":
                continue
            rows += 1
            r = ret_of(p)
            st = [e for e in p if e[0] == "store" and is_self_field(e[2], "state")]
            state = st[-1][3] if st else None
            sname = state[2] if state is not None and state[0] == "agg" else None
            if returns_none(b, p):
                # `match self.recover(..) { None => return None, .. }` or `self.recover(..)?`
                rec = decision_on(p, lambda t: t[0] == "discr" and call_is(t[1], "recover"))          # Option: None = 0
                recq = decision_on(p, lambda t: t[0] == "discr" and call_is(t[1], "branch") and call_is(t[1][3][0], "recover"))  # ControlFlow: Break = 1
                if rec == 0 or recq == 1:
                    ctx.ob("R4", "next:None[recover=None]", not st, "when recover() yields nothing the state is left untouched (so the iterator stays ended)", config=cfg)
                else:
                    ctx.ob("R4", "next:None[only-whitespace]", sname == "Done", "reaching the end of input while looking for a key ends the iteration for good (state %s)" % sname, config=cfg)
                kinds.add("None")
                continue
            if r[0] == "call":
                callee = sym.short(r[2]).split("::")[-1]
                kinds.add(callee)
                if callee in ("double_q", "single_q"):
                    # item and state are produced by the helper: value = start+1 .. e ; state Next(e+1)
                    val = r[3][2]
                    ok = val[0] == "agg" and val[2] == "Range" and val[3][0][0] == "bin" and val[3][0][1] == "Add" and val[3][0][3] == ("c", "usize", 1) and found_index(val[3][0][2]) is not None and found_index(val[3][1]) is not None
                    q = [e for e in p if e[0] == "switch" and e[2][0] == "pl" and call_is(strip_wrappers(e[2])[1] if strip_wrappers(e[2])[0] == "pl" else ("x",), "find") and e[3] in (34, 39)]
                    ctx.ob("R1", "next:%s:value-range" % callee, ok and not st, "quoted value = (index after the opening quote)..(index of the closing quote); the helper sets the state", config=cfg)
                elif callee == "key_only":
                    pos = r[3][3]
                    at_end = call_is(strip_wrappers(pos), "len")
                    ctx.ob("R1", "next:key_only[%s]" % ("end" if at_end else "next-token"), sname == ("Done" if at_end else "Next") and (at_end or state[3][0] == pos),
                           "key without '=': position = %s, resume state %s (documented: ExpectedEq(pos) -> Next(pos), at end of input -> Done)" % (sym.show(pos, 3), sname), config=cfg)
                continue
            rv, inner = describe_ret(r, 2)
            if rv[:2] == ("Some", "Err"):
                err = r[3][0][3][0]
                if err[0] == "agg":
                    ev = err[2]
                    kinds.add(ev)
                    arg0 = err[3][0] if err[3] else None
                    if ev == "ExpectedValue":
                        ctx.ob("R1", "next:ExpectedValue", sname == "Done" and call_is(strip_wrappers(arg0), "len"), "`key=` then end of input: ExpectedValue(len), state Done (state %s)" % sname, config=cfg)
                    elif ev == "ExpectedQuote":
                        qv = err[3][1]
                        ctx.ob("R1", "next:ExpectedQuote[%s]" % sym.show(qv), sname == "Done" and call_is(strip_wrappers(arg0), "len"), "unterminated quote: ExpectedQuote(len, quote), state Done", config=cfg)
                    elif ev == "UnquotedValue":
                        ok = sname == "SkipValue" and state[3][0] == arg0 and found_index(arg0) is not None
                        html = decision_on(p, lambda t: is_self_field(t, "html"))
                        ctx.ob("R1", "next:UnquotedValue", ok and html == 0, "XML mode: UnquotedValue(pos of value), resume state SkipValue(pos)", config=cfg)
                    else:
                        ctx.ob("R1", "next:error:%s" % ev, False, "unexpected error kind constructed in next()", config=cfg)
                elif err[0] == "pl" and call_is(err[1], "check_for_duplicates"):
                    kinds.add("Duplicated")
                    pay = state[3][0] if sname == "SkipEqValue" else None
                    fc = found_index(pay) if pay is not None else None
                    # the payload must be the index at which '=' was found
                    eq = fc is not None and any(e[0] == "switch" and e[3] == 61 and strip_wrappers(e[2])[0] == "pl" and strip_wrappers(e[2])[1] == fc for e in p)
                    ctx.ob("R1", "next:Duplicated", sname == "SkipEqValue" and eq, "repeated key: resume state SkipEqValue(index of '=') (state %s, payload is the '=' index: %s)" % (sname, eq), config=cfg)
            elif rv[:3] in (("Some", "Ok", "DoubleQ"), ("Some", "Ok", "SingleQ")):
                # the helpers double_q / single_q written out in place: item (key, value), state Next(value.end + 1)
                callee = "double_q" if rv[2] == "DoubleQ" else "single_q"
                kinds.add(callee)
                item = r[3][0][3][0]
                val = item[3][1] if item[0] == "agg" and len(item[3]) > 1 else None
                ok = val is not None and val[0] == "agg" and val[2] == "Range" and val[3][0][0] == "bin" and val[3][0][1] == "Add" and val[3][0][3] == ("c", "usize", 1) and found_index(val[3][0][2]) is not None and found_index(val[3][1]) is not None
                ctx.ob("R1", "next:%s:value-range" % callee, ok, "quoted value = (index after the opening quote)..(index of the closing quote)", config=cfg)
                nxt = state[3][0] if sname == "Next" and state[3] else None
                ok2 = nxt is not None and nxt[0] == "bin" and nxt[1] == "Add" and nxt[3] == ("c", "usize", 1) and val is not None and (nxt[2] == val[3][1] or ends_with_fields(nxt[2], "end"))
                ctx.ob("R1", "%s:resume" % callee, ok2, "after a quoted value iteration resumes at value.end + 1 (after the closing quote)", config=cfg)
                inlined_q.add(callee)
            elif rv[:3] == ("Some", "Ok", "Unquoted"):
                kinds.add("Unquoted")
                html = decision_on(p, lambda t: is_self_field(t, "html"))
                item = r[3][0][3][0]
                end = item[3][1][3][1]
                ctx.ob("R1", "next:Unquoted", sname == "Next" and state[3][0] == end, "HTML unquoted value: resume at the end of the value (Next(end))", config=cfg)
                ctx.ob("R2", "next:Unquoted:html-only", html not in (None, 0), "Attr::Unquoted is produced only in HTML mode", config=cfg)
            else:
                ctx.ob("R1", "next:row:%s" % (rv,), False, "unclassified return of next()", config=cfg)
        ctx.floor("R1", "returning paths of IterState::next", rows, 9, config=cfg)
        want = {"None", "double_q", "single_q", "key_only", "ExpectedValue", "ExpectedQuote", "UnquotedValue", "Duplicated", "Unquoted"}
        ctx.ob("R1", "next:kinds", kinds == want, "next() produces exactly the documented outcomes: missing %s extra %s" % (sorted(want - kinds), sorted(kinds - want)), config=cfg)
        # helpers
        for fn, var in (("double_q", "DoubleQ"), ("single_q", "SingleQ")):
            if fn in inlined_q:
                continue  # written out inside next(): checked on those paths
            h = ctx.body(F, "events::attributes::IterState::" + fn, "R1")
            if h is None:
                continue
            for p in ctx.paths(h):
                r = ret_of(p)
                st = [e for e in p if e[0] == "store" and is_self_field(e[2], "state")]
                ok = describe_ret(r, 2)[0][:3] == ("Some", "Ok", var) and len(st) == 1 and st[0][3][0] == "agg" and st[0][3][2] == "Next"
                if ok:
                    v = st[0][3][3][0]
                    ok = v[0] == "bin" and v[1] == "Add" and ends_with_fields(v[2], "end") and v[3] == ("c", "usize", 1)
                ctx.ob("R1", "%s:resume" % fn, ok, "after a quoted value iteration resumes at value.end + 1 (after the closing quote)", config=cfg)
        k = ctx.body(F, "events::attributes::IterState::key_only", "R2")
        if k is not None:
            for p in ctx.paths(k):
                r = ret_of(p)
                html = decision_on(p, lambda t: is_self_field(t, "html"))
                if html == 0:
                    recorded = any(name_is(c[2], "check_for_duplicates") or (name_is(c[2], "Vec::push") and ends_with_fields(c[3][0], "keys")) for c in calls(p))
                    ctx.ob("R2", "key_only[xml]", describe_ret(r, 3)[0][:3] == ("Some", "Err", "ExpectedEq") and r[3][0][3][0][3][0][0] == "arg" and not recorded,
                           "XML mode: a key without '=' is ExpectedEq(offset) and is not an attribute: it is neither compared with nor recorded among the seen keys (recorded: %s)" % recorded, config=cfg)
                else:
                    dup = decision_on(p, lambda t: t[0] == "discr" and call_is(t[1], "check_for_duplicates"))
                    checked = any(name_is(c[2], "check_for_duplicates") for c in calls(p))
                    is_empty = has_subterm(r, lambda s: (s[0] == "fn" and "Empty" in s[1]) or (s[0] == "c" and "Empty" in str(s[2])) or (s[0] == "agg" and s[2] == "Empty") or (s[0] == "call" and isinstance(s[2], str) and s[2].endswith("::Empty")))
                    if dup == 1:
                        ctx.ob("R2", "key_only[html:duplicate]", checked and describe_ret(r, 1)[0][:2] == ("Some", "Err") and has_subterm(r, lambda s: call_is(s, "check_for_duplicates")), "HTML mode: the duplicate check's error is the item", config=cfg)
                    else:
                        ctx.ob("R2", "key_only[html]", checked and is_empty and (dup == 0 or has_subterm(r, lambda s: call_is(s, "check_for_duplicates"))), "HTML mode: Attr::Empty(key) after the duplicate check", config=cfg)


def r3_duplicates(ctx):
    for cfg, F in ctx.facts.items():
        b = ctx.body(F, "events::attributes::IterState::check_for_duplicates", "R3")
        if b is None:
            continue
        for p in ctx.paths(b):
            if ends(p) != "ret":
                continue
            chk = decision_on(p, lambda t: is_self_field(t, "check_duplicates"))
            r = ret_of(p)
            rv = describe_ret(r, 1)[0]
            pushed = any(name_is(c[2], "Vec::push") and ends_with_fields(c[3][0], "keys") for c in calls(p))
            over_keys = lambda c: has_subterm(c[3][0], lambda s2: s2[0] == "pl" and ends_with_fields(s2, "keys")) if c[3] else False
            searched = any(name_is(c[2], "find") for c in calls(p)) or any(name_is(c[2], "next") and has_subterm(c[3][0], lambda s2: s2[0] == "phi" or call_is(s2, "iter", "into_iter")) for c in calls(p))
            if chk == 0:
                ctx.ob("R3", "check_for_duplicates[off]", rv[:1] == ("Ok",) and not pushed and not searched, "with checks off keys are neither compared nor recorded", config=cfg)
            elif rv[:2] == ("Err", "Duplicated"):
                d = r[3][0]
                ok = ends_with_fields(d[3][0], "start") and root_of(d[3][0])[0] == "arg" and has_subterm(d[3][1], lambda s: call_is(s, "find", "next")) and ends_with_fields(strip_wrappers(d[3][1]), "start")
                ctx.ob("R3", "check_for_duplicates[dup]", ok and not pushed, "Duplicated(position of this key, position of the previous one)", config=cfg)
            else:
                ctx.ob("R3", "check_for_duplicates[new]", rv[:1] == ("Ok",) and pushed and searched, "a new key is recorded after the search", config=cfg)
        c0 = F.closure("quick_xml::events::attributes::IterState::check_for_duplicates::{closure#0}")
        ok = False
        if c0 is not None:
            # on EVERY path of the predicate (HTML mode included: it differs only in what it accepts, not in what a key is)
            rs = [(ret_of(p), p) for p in sym.walk(c0)]
            ok = bool(rs) and all(r is not None and r[0] == "call" and name_is(r[2], "eq") and "[u8]" in str([c[5] for c in calls(p) if name_is(c[2], "eq")]) for r, p in rs)
            if not ok and rs:
                ctx.ob("R3", "check_for_duplicates:compare:every-path", False, "some path of the key comparison is not plain slice equality: %s" % sorted({sym.show(r, 2)[:60] for r, _ in rs if r is not None}), config=cfg)
        if not ok:
            # the comparison written in the function itself (loop spelling)
            for p in ctx.paths(b):
                for c in calls(p):
                    if name_is(c[2], "eq") and "[u8]" in str(c[5]) and not isinstance(c[1], tuple):
                        ok = True
        ctx.ob("R3", "check_for_duplicates:compare", ok, "keys are compared as byte slices (slice equality)", config=cfg)


def r4_stays_ended(ctx):
    for cfg, F in ctx.facts.items():
        b = ctx.body(F, "events::attributes::IterState::recover", "R4")
        if b is None:
            continue
        vs = F.variants("events::attributes::State")
        tab = {}
        for p in ctx.paths(b):
            if ends(p) != "ret":
                continue
            d = decision_on(p, lambda t: t[0] == "discr" and is_self_field(t[1], "state"))
            r = ret_of(p)
            if isinstance(d, int):
                tab[vs[d]] = "None" if (r[0] == "agg" and r[2] == "None") else ("Some(payload)" if r[0] == "agg" and r[2] == "Some" else sym.short(r[2]).split("::")[-1] if r[0] == "call" else "?")
        ctx.ob("R4", "recover:table", tab == {"Done": "None", "Next": "Some(payload)", "SkipValue": "skip_value", "SkipEqValue": "skip_eq_value"}, "recover(): %s" % tab, config=cfg)


def scan_start(p):
    """(start term of `(x..)`, start term of `slice[y..]`) of the zip built on this path"""
    rf = None
    sl = None
    for c in calls(p):
        if name_is(c[2], "zip"):
            a = strip_wrappers(c[3][0])
            if a[0] == "agg" and a[2] == "RangeFrom":
                rf = a[3][0]
        if name_is(c[2], "index") and strip_wrappers(c[3][1])[0] == "agg" and strip_wrappers(c[3][1])[2] == "RangeFrom":
            sl = strip_wrappers(c[3][1])[3][0]
        # `slice.iter().enumerate().skip(k)`: positions and items both start at k
        if name_is(c[2], "Iterator::skip", "Iterator>::skip", "skip") and len(c[3]) > 1 and has_subterm(c[3][0], lambda s2: call_is(s2, "enumerate")):
            rf = sl = c[3][1]
    return rf, sl


def plus(t):
    """(base, k) for base + k"""
    t = strip_wrappers(t)
    if t[0] == "bin" and t[1] == "Add" and t[3][0] == "c":
        return t[2], t[3][2]
    return t, 0


def r5_recovery(ctx):
    for cfg, F in ctx.facts.items():
        isws = valueset(F.body("utils::is_whitespace")) if F.body("utils::is_whitespace") is not None else set()
        # ---- skip_eq_value: payload indexes the '=' (R1 `next:Duplicated`)
        b = ctx.body(F, "events::attributes::IterState::skip_eq_value", "R5")
        if b is not None:
            paths = ctx.paths(b)
            rf, sl = scan_start(paths[0])
            okshape = rf is not None and sl is not None and plus(rf) == plus(sl) and plus(rf)[0][0] == "arg" and plus(rf)[0][2] == "offset"
            k = plus(rf)[1] if okshape else None
            first_pred = F.closure("quick_xml::events::attributes::IterState::skip_eq_value::{closure#0}")
            accepts_eq = None
            if first_pred is not None:
                accepts_eq = 61 not in isws  # predicate is !is_whitespace(b) — verified next
                cs = [callee_of(t)[0] for _, t in first_pred.calls()]
                neg = any(ret_of(p) is not None and ret_of(p)[0] == "un" and ret_of(p)[1] == "Not" for p in sym.walk(first_pred))
                if not (len(cs) == 1 and name_is(cs[0] or "", "is_whitespace") and neg):
                    accepts_eq = None
            ctx.ob("R5", "skip_eq_value:scan-start", okshape and (k >= 1 or accepts_eq is False),
                   "the state payload is the index of '=' (already classified); the search for the opening quote starts at offset+%s with a predicate that %s '=': starting AT the '=' makes the quote arms unreachable and recovery stops at the first whitespace instead of after the value" % (k, "accepts" if accepts_eq else "rejects" if accepts_eq is False else "may accept"),
                   config=cfg)
            # resume point after the closing quote
            quote_rets = 0
            bad = 0
            for p in paths:
                if ends(p) != "ret":
                    continue
                r = ret_of(p)
                finds = [c for c in calls(p) if name_is(c[2], "find")]
                if len(finds) == 2 and r[0] == "agg" and r[2] == "Some":
                    quote_rets += 1
                    base, kk = plus(r[3][0])
                    fi = found_index(base)
                    if not (fi is not None and fi[1] == finds[1][1] and kk == 1):
                        bad += 1
            # the closing quote must be of the same kind as the opening one (the normal path in next() closes on `b == quote`)
            c2 = F.closure("quick_xml::events::attributes::IterState::skip_eq_value::{closure#1}")
            same = False
            if c2 is not None:
                for p2 in sym.walk(c2):
                    r2 = ret_of(p2)
                    if r2 is not None and r2[0] == "bin" and r2[1] == "Eq" and (upvar_of(c2, r2[2]) is not None or upvar_of(c2, r2[3]) is not None):
                        same = True
            ctx.ob("R5", "skip_eq_value:matching-quote", same, "the skipped value ends at the first byte equal to the quote that opened it (a value may contain the other quote character), as in IterState::next", config=cfg)
            ctx.ob("R5", "skip_eq_value:resume-after-quote", quote_rets >= 1 and bad == 0,
                   "after a quoted value the documented recovery point is the byte after the closing quote (index of the closing quote + 1); %d of %d quote exits resume elsewhere" % (bad, quote_rets), config=cfg)
            # quote arms exist: '"' and '\''
            qs = set()
            for p in paths:
                for e in p:
                    if e[0] == "switch" and isinstance(e[3], int) and e[3] in (34, 39) and found_index(e[2]) is not None:
                        qs.add(e[3])
            ctx.ob("R5", "skip_eq_value:both-quotes", qs == {34, 39}, "both quote kinds are recognised: %s" % sorted(qs), config=cfg)
            # the byte that opens the value decides which byte closes it
            rows = {}
            for p in paths:
                finds = [c for c in calls(p) if name_is(c[2], "find") and not isinstance(c[1], tuple)]
                if len(finds) < 2:
                    continue
                f1 = ("call", finds[0][1], finds[0][2], finds[0][3])
                opened = [e[3] for e in p if e[0] == "switch" and isinstance(e[3], int) and not isinstance(e[3], bool) and e[2][0] == "pl" and has_subterm(e[2], lambda s2: s2 == f1) and e[3] > 1]
                cl = [strip_wrappers(a) for a in finds[1][3] if strip_wrappers(a)[0] == "closure"]
                closes = [strip_wrappers(o)[2] for c2 in cl for o in c2[2] if strip_wrappers(o)[0] == "c" and isinstance(strip_wrappers(o)[2], int)]
                if opened and closes:
                    rows.setdefault(opened[-1], set()).add(closes[0])
            ctx.ob("R5", "skip_eq_value:quote-table", rows == {34: {34}, 39: {39}}, "the first non-blank byte after '=' selects the closing quote: '\"' -> '\"', \"'\" -> \"'\" (anything else is an unquoted value): %s" % {k: sorted(v) for k, v in rows.items()}, config=cfg)
            fp_ok = False
            if first_pred is not None:
                cs0 = [callee_of(t)[0] for _, t in first_pred.calls()]
                neg0 = any(ret_of(p0) is not None and ret_of(p0)[0] == "un" and ret_of(p0)[1] == "Not" for p0 in sym.walk(first_pred))
                fp_ok = len(cs0) == 1 and name_is(cs0[0] or "", "is_whitespace") and neg0
            ctx.ob("R5", "skip_eq_value:skips-blanks", fp_ok, "the opening quote is the first byte after '=' that is not XML whitespace", config=cfg)
            unq = any(any(name_is(c[2], "skip_value") for c in calls(p)) for p in paths)
            ctx.ob("R5", "skip_eq_value:unquoted", unq, "an unquoted value is skipped with skip_value", config=cfg)
        # ---- skip_value: payload indexes a non-space byte; predicate is_whitespace rejects it, so starting at it is fine
        b = ctx.body(F, "events::attributes::IterState::skip_value", "R5")
        if b is not None:
            paths = ctx.paths(b)
            rf, sl = scan_start(paths[0])
            # spelling A: (offset..).zip(slice[offset..].iter()).find(pred) -> the index component of the hit
            # spelling B: slice[offset..].iter().position(pred) -> offset + position
            searches = [c for c in calls(paths[0]) if name_is(c[2], "find", "position") and not isinstance(c[1], tuple)]
            spelling_b = bool(searches) and name_is(searches[0][2], "position") and rf is None
            okshape = sl is not None and plus(sl)[0][0] == "arg" and (spelling_b or (rf is not None and plus(rf) == plus(sl)))
            preds = [F.closure(strip_wrappers(a)[1]) for c in searches for a in c[3] if strip_wrappers(a)[0] == "closure"]
            cs = [callee_of(t)[0] for pb in preds if pb is not None for _, t in pb.calls()]
            negated = any(ret_of(p0) is not None and ret_of(p0)[0] == "un" and ret_of(p0)[1] == "Not" for pb in preds if pb is not None for p0 in sym.walk(pb))
            ctx.ob("R5", "skip_value:scan", okshape and len(cs) == 1 and name_is(cs[0] or "", "is_whitespace") and not negated, "skips to the first XML whitespace at or after the value start (index and slice start agree)", config=cfg)
            for p in paths:
                if ends(p) != "ret":
                    continue
                r = ret_of(p)
                d = decision_on(p, lambda t: t[0] == "discr" and call_is(t[1], "find", "position"))
                if d is None and call_is(r, "map") and call_is(r[3][0], "find"):
                    # `iter.find(pred).map(|(e, _)| e)` handed to a combinator the engine does not model
                    proj = False
                    for a in r[3][1:]:
                        cb = F.closure(a[1]) if a[0] == "closure" else None
                        if cb is not None:
                            for p2 in sym.walk(cb):
                                r2 = ret_of(p2)
                                if r2 is not None and r2[0] == "pl" and r2[1][0] == "arg" and fields_of(r2)[:1] == ("0",):
                                    proj = True
                    ctx.ob("R5", "skip_value:found", proj, "resume at the whitespace that ends the value (find(..).map(|(e, _)| e))", config=cfg)
                    ctx.ob("R5", "skip_value:end", proj, "value runs to the end of input: nothing more to iterate", config=cfg)
                elif d == 1:
                    v = r[3][0] if r[0] == "agg" and r[2] == "Some" and r[3] else None
                    if spelling_b:
                        # offset + position in slice[offset..]
                        good = v is not None and v[0] == "bin" and v[1] == "Add" and {strip_wrappers(v[2])[0], strip_wrappers(v[3])[0]} == {"arg", "pl"} and \
                            has_subterm(v, lambda s2: call_is(s2, "position")) and plus(sl)[1] == 0 and (strip_wrappers(v[2]) == strip_wrappers(sl) or strip_wrappers(v[3]) == strip_wrappers(sl))
                    else:
                        good = v is not None and found_index(v) is not None
                    ctx.ob("R5", "skip_value:found", good, "resume at the whitespace that ends the value", config=cfg)
                else:
                    ctx.ob("R5", "skip_value:end", r[0] == "agg" and r[2] == "None", "value runs to the end of input: nothing more to iterate", config=cfg)
        # ---- next(): index and slice start agree
        n = ctx.body(F, NEXT, "R5")
        if n is not None:
            for p in ctx.paths(n, max_paths=60000)[:200]:
                rf, sl = scan_start(p)
                if rf is not None:
                    ctx.ob("R5", "next:scan", sl is not None and rf == sl and has_subterm(rf, lambda s: call_is(s, "recover")), "next() scans (offset..).zip(slice[offset..]) from the recovered offset", config=cfg)
                    break


def r6_entry_points(ctx):
    """Positions inside AttrError are offsets in the owning tag: both event accessors hand the whole tag content and the
    name length to the iterator and differ only in the HTML flag."""
    for cfg, F in ctx.facts.items():
        rows = {}
        for fn in ("attributes", "html_attributes"):
            b = ctx.body(F, "events::BytesStart::" + fn, "R6")
            if b is None:
                continue
            for p in ctx.paths(b):
                for c in calls(p):
                    if name_is(c[2], "Attributes::wrap") and len(c[3]) == 3:
                        a0, a1, a2 = (strip_wrappers(x) for x in c[3])
                        whole = a0[0] == "pl" and is_self_field(a0, "buf") or (a0[0] == "call" and name_is(a0[2], "deref", "as_ref") and is_self_field(strip_wrappers(a0[3][0]), "buf"))
                        pos = a1[0] == "pl" and is_self_field(a1, "name_len")
                        rows[fn] = (bool(whole), bool(pos), a2[2] if a2[0] == "c" else sym.show(a2, 1))
        ctx.ob("R6", "BytesStart::attributes|html_attributes", rows == {"attributes": (True, True, False), "html_attributes": (True, True, True)},
               "both accessors iterate over the whole tag content starting at name_len (error positions are tag offsets); they differ only in the html flag: %s" % rows, config=cfg)

def r7_whitespace(ctx):
    """what separates attributes is XML white space and nothing else (C01 R5: one notion, four characters): a wider
    set moves key boundaries and recovery points"""
    import c01
    n0 = len(ctx.obs)
    c01.r5_whitespace(ctx)
    for o in ctx.obs[n0:]:
        o["site"] = "whitespace:" + o["site"]
        o["rule"] = "R7"


def r8_byte_predicates(ctx):
    """Every byte predicate of the attribute tokeniser (the closures handed to find/position/skip in IterState::*) is
    built from the crate's XML whitespace and '=': its accepted set is whitespace, its complement, or whitespace plus
    '='; the only other predicate compares with the quote captured from the input.  A predicate that knows only some
    of the blanks moves key boundaries and recovery points for the others."""
    for cfg, F in ctx.facts.items():
        w = F.body("utils::is_whitespace")
        ws = valueset(w) if w is not None else set()
        allowed = {"whitespace": ws, "not-whitespace": set(range(256)) - ws, "whitespace-or-=": ws | {61}}
        n = 0
        kinds = set()
        for b in F.bodies:
            if "events::attributes::IterState::" not in b.path or "{closure" not in b.path or "check_for_duplicates" in b.path:
                continue
            if str(b.locals[0] if isinstance(b.locals[0], str) else b.locals[0]) != "bool":
                continue   # not a predicate (e.g. the `.map(|n| offset + n)` that turns a relative position into an absolute one)
            nm = b.path.split("IterState::", 1)[1]
            vs = byte_predicate_set(F, b, ws)
            if vs is None:
                quote = all(ret_of(p) is not None and ret_of(p)[0] == "bin" and ret_of(p)[1] == "Eq" and (upvar_of(b, ret_of(p)[2]) is not None or upvar_of(b, ret_of(p)[3]) is not None) for p in sym.walk(b))
                ctx.ob("R8", "predicate:%s" % nm, quote, "a predicate outside the byte-class vocabulary must be the comparison with the captured quote (idiom not recognised: fail closed)", config=cfg)
                continue
            n += 1
            k = [name for name, a in allowed.items() if a == vs]
            kinds.update(k)
            ctx.ob("R8", "predicate:%s" % nm, bool(k), "accepted bytes must be XML whitespace, its complement, or whitespace plus '=': accepts %s" % (sorted(vs) if len(vs) < 40 else "all but %s" % sorted(set(range(256)) - vs)), loc=b.loc(b.j["span"]), config=cfg)
        ctx.floor("R8", "byte predicates of the attribute tokeniser", n, 5, config=cfg)
        ctx.ob("R8", "predicate:key-terminator", "whitespace-or-=" in kinds, "a key ends at '=' or at any XML whitespace (kinds present: %s)" % sorted(kinds), config=cfg)


RULES = [("R1", r1_table), ("R3", r3_duplicates), ("R4", r4_stays_ended), ("R5", r5_recovery), ("R6", r6_entry_points), ("R7", r7_whitespace), ("R8", r8_byte_predicates)]
