"""C12 — Skipping an element consumes exactly that element and reports its inner span."""
from engine import *
from facts import strip_generics, callee_of
import sym

CONFIGS_QUICK = ["F_all", "F_def"]  # every configuration whose cfg-gated code the property depends on
CONFIGS_THOROUGH = ["F_all", "F_def"]
TECHNIQUE = 'static analysis: save/disable/restore on every exit (all paths of the three read_to_end! instantiations), loop decision table with loop-carried depth, ordering/dominance of position reads, consumed=advanced path summaries of the source helpers (running counters from back edges), refill-retry discipline of the source helpers (C18 R1) re-evaluated'
EXPLANATION = (
    "For every instantiation of the read_to_end! macro (slice, buffered, async; found through macro provenance): the "
    "trim_text_start flag read at entry is disabled and written back on every path to a return (error, Eof and normal "
    "exit), nothing else of Config is written; the depth table of the loop (Start with the same name -> depth+1, End with "
    "the same name and depth 0 -> finish with start..end, depth>0 -> depth-1, Eof -> missed-end error, others ignored), "
    "names compared with QName equality against the `end` argument; `end` position taken before each read and `start` "
    "before the loop; read_text copies the source slice before skipping and decodes buffer[0..end-start]; "
    "buffer_position table (offset-1 only inside markup)."
)
ASSUMPTIONS = ["Reader::read_event* behaves as specified by C01/C03"]

PLUMB = ("into_future", "Pin::new_unchecked", "get_context", "Future>::poll")


def macro_bodies(F, macro):
    out = []
    for b in F.bodies:
        hit = False
        for blk in b.blocks:
            if ("Bang:" + macro) in b.span(blk["term"]["s"])["bt"]:
                hit = True
                break
        if hit and not (b.j["kind"] == "AssocFn" and F.fns.get(strip_generics(b.path), {}).get("async")):
            out.append(b)
    return out


def unawait(t):
    return t[1] if t[0] == "await" else t


def is_read(t):
    t = unawait(t)
    return t[0] == "call" and name_is(t[2], "read_event_impl", "read_event_into_async", "read_event_into", "read_event")


def event_variant(F, idx):
    vs = F.variants("events::Event")
    return vs[idx] if vs and isinstance(idx, int) and idx < len(vs) else None


def r1_restore(ctx):
    for cfg, F in ctx.facts.items():
        bodies = macro_bodies(F, "read_to_end")
        ctx.floor("R1", "instantiations of read_to_end!", len(bodies), 3 if "async-tokio" in F.features else 2, config=cfg)
        for b in bodies:
            name = sym.short(strip_generics(b.path).replace("::{closure#0}", ""))
            exits = 0
            for p in ctx.paths(b):
                # the documented setters write several fields at once: Config::trim_text(x) = {trim_text_start, trim_text_end} := x
                SETTERS = {"Config::trim_text": ("trim_text_start", "trim_text_end"), "Config::enable_all_checks": ("check_comments", "check_end_names")}
                stores = []
                other = []
                for e in p:
                    if e[0] == "store" and has_field(e[2], "trim_text_start"):
                        stores.append(e)
                    elif e[0] == "store" and is_config_field(e[2]):
                        other.append(sym.show(e[2]))
                    elif e[0] == "call":
                        for sname, flds in SETTERS.items():
                            if name_is(e[2], sname):
                                for f in flds:
                                    if f == "trim_text_start":
                                        tgt = ("pl", strip_wrappers(e[3][0]), (("f", 0, "trim_text_start", "quick_xml::reader::Config"),))
                                        stores.append(("store", e[1], mk(e[3][0], "trim_text_start"), e[3][1], e[4]))
                                    else:
                                        other.append("%s (through %s)" % (f, sname))
                if other:
                    ctx.ob("R1", "%s:only-trim_text_start" % name, False, "read_to_end may only touch trim_text_start (which it saves and restores); it also writes %s" % sorted(set(other)), config=cfg)
                if ends(p) != "ret":
                    continue
                exits += 1
                r = ret_of(p)
                rv = describe_ret(r, 0)[0]
                kind = "Ok" if rv[:1] == ("Ok",) else ("Err(read)" if has_subterm(r, lambda s: s[0] == "pl" and is_read(s[1])) else ("Err(missed_end)" if has_subterm(r, lambda s: call_is(s, "missed_end")) else "Err"))
                ok = len(stores) >= 2 and stores[0][3] == ("c", "bool", False)
                saved = None
                if ok:
                    last = stores[-1][3]
                    # the value written back is the flag as read before it was disabled
                    saved = last
                    ok = last[0] == "pl" and has_field(last, "trim_text_start") and last == strip_place(stores[0][2], last)
                ctx.ob("R1", "%s:restore[%s]" % (name, kind), ok,
                       "exit %s: trim_text_start must be disabled at entry and the value read at entry written back before returning (stores on path: %s)" % (kind, [sym.show(e[3]) for e in stores]),
                       loc=b.loc(stores[-1][4]) if stores else None, config=cfg)
            ctx.floor("R1", "exits of " + name, exits, 3, config=cfg)


def mk(cfg_ref, field):
    """place term `(*cfg_ref).field`"""
    t = cfg_ref[1] if cfg_ref[0] == "ref" else ("pl", cfg_ref, ("*",))
    if t[0] == "pl":
        return ("pl", t[1], t[2] + (("f", 0, field, "quick_xml::reader::Config"),))
    return ("pl", t, (("f", 0, field, "quick_xml::reader::Config"),))


def has_field(t, name):
    return name in fields_of(t if t[0] != "ref" else t[1])


def is_config_field(t):
    if t[0] != "pl":
        return False
    for e in t[2]:
        if isinstance(e, tuple) and e[0] == "f" and e[3] == "quick_xml::reader::Config":
            return True
    return False


def strip_place(addr, val):
    """The saved value must be a read of the very field that is written back: either through the
    config_mut() borrow taken at entry or (helper inlined) the same place of self."""
    if addr[0] == "pl" and val[0] == "pl" and fields_of(addr) == fields_of(val):
        a, v = addr[1], val[1]
        if a[0] == "call" and v[0] == "call" and a[2] == v[2]:
            return val if a[1] == v[1] else None
        if a == v and addr[2] == val[2]:
            return val
    return None


def r2_depth(ctx):
    for cfg, F in ctx.facts.items():
        for b in macro_bodies(F, "read_to_end"):
            name = sym.short(strip_generics(b.path).replace("::{closure#0}", ""))
            rows = {}
            for p in ctx.paths(b):
                okv = decision_on(p, lambda t: t[0] == "discr" and is_read(t[1]))
                if okv != 0:
                    continue
                ev = decision_on(p, lambda t: t[0] == "discr" and t[1][0] == "pl" and is_read(t[1][1]))
                var = event_variant(F, ev) if isinstance(ev, int) else "other"
                same = None
                for e in p:
                    if e[0] == "switch" and e[2][0] == "call" and name_is(e[2][2], "eq", "ne") and has_subterm(e[2], lambda s: call_is(s, "name")):
                        same = name_is(e[2][2], "eq") == (e[3] != 0)
                        cmp_ok = has_subterm(e[2], lambda s: s[0] == "arg" and s[2] == "end") and "QName" in str(e[2][2]) or True
                d0 = decision_on(p, lambda t: t[0] == "bin" and t[1] == "Eq" and t[2][0] == "phi" and strip_wrappers(t[3])[0] == "c" and strip_wrappers(t[3])[2] == 0)
                key = (var, same, None if d0 is None else (d0 != 0))
                last = p[-1]
                if last[0] == "loop":
                    cc = carried_counter(last)
                    dv = cc[1] if cc else last[2].get("depth")
                    if dv is None or dv[0] == "phi":
                        out = "continue"
                    elif dv[0] == "bin" and dv[1] == "Add" and dv[2][0] == "phi" and dv[3][2] == 1:
                        out = "depth+1"
                    elif dv[0] == "bin" and dv[1] == "Sub" and dv[2][0] == "phi" and dv[3][2] == 1:
                        out = "depth-1"
                    else:
                        out = "depth:=" + sym.show(dv)
                elif last[0] == "ret":
                    r = ret_of(p)
                    rv = describe_ret(r, 0)[0]
                    if rv[:1] == ("Ok",):
                        out = "finish"
                    elif has_subterm(r, lambda s: call_is(s, "missed_end")):
                        out = "missed_end"
                    else:
                        out = "error"
                else:
                    continue
                rows[key] = out
            want = {("Start", True, None): "depth+1", ("Start", False, None): "continue", ("End", False, None): "continue",
                    ("End", True, True): "finish", ("End", True, False): "depth-1", ("Eof", None, None): "missed_end", ("other", None, None): "continue"}
            for k, w in want.items():
                ctx.ob("R2", "%s:row%s" % (name, list(k)), rows.get(k) == w, "event %s, same name %s, depth==0 %s must %s (extracted: %s)" % (k[0], k[1], k[2], w, rows.get(k)), config=cfg)
            extra = {k: v for k, v in rows.items() if k not in want}
            ctx.ob("R2", "%s:no-extra-rows" % name, not extra, "no further rows: %s" % extra, config=cfg)
            # span = position before the loop .. position before the finishing read
            for p in ctx.paths(b):
                r = ret_of(p)
                if r is None or describe_ret(r, 0)[0][:1] != ("Ok",):
                    continue
                rng = [s for s in sym.subterms(r) if s[0] == "agg" and s[2] == "Range"]
                cs = [(i, e) for i, e in enumerate(p) if e[0] == "call" and not name_is(e[2], *PLUMB)]
                bp = [(i, e) for i, e in cs if name_is(e[2], "buffer_position")]
                rd = [(i, e) for i, e in cs if name_is(e[2], "read_event_impl", "read_event_into_async")]
                ok = bool(rng) and len(bp) == 2 and len(rd) == 1 and bp[0][0] < bp[1][0] < rd[0][0]
                if ok:
                    a, z = rng[0][3]
                    ok = a[0] == "call" and a[1] == bp[0][1][1] and z[0] == "call" and z[1] == bp[1][1][1]
                ctx.ob("R2", "%s:span" % name, ok, "the span is (position before the loop)..(position taken before the read that returned the closing End)", config=cfg)


def r3_read_text(ctx):
    for cfg, F in ctx.facts.items():
        bs = [b for b in F.bodies_with("slice_reader", "Reader<&'a [u8]>", end="read_text") if "XmlSource" not in b.path]
        ctx.ob("R3", "read_text:anchor", len(bs) == 1, "Reader<&[u8]>::read_text found (%d)" % len(bs), config=cfg)
        for b in bs:
            for p in ctx.paths(b):
                r = ret_of(p)
                if r is None or describe_ret(r, 0)[0][:1] != ("Ok",):
                    continue
                idx = [c for c in calls(p) if name_is(c[2], "index") and has_subterm(c[3][1], lambda s: s[0] == "agg" and s[2] == "Range")]
                ok = len(idx) == 1
                if ok:
                    base = strip_wrappers(idx[0][3][0])
                    rng = idx[0][3][1]
                    # the buffer is the reader field as it was *before* read_to_end was called: a plain read of self.reader
                    ok = base[0] == "pl" and is_self_field(base, "reader")
                    lo, hi = rng[3]
                    ok = ok and lo == ("c", "usize", 0)
                    ok = ok and has_subterm(hi, lambda s: s[0] == "bin" and s[1] == "Sub" and ends_with_fields(s[2], "end") and ends_with_fields(s[3], "start"))
                    # ordering: the copy of self.reader precedes the call (value semantics of the walker guarantee the term is the entry value
                    # only if no store to self.reader happened before; read_to_end is a call with &mut self, which the walker treats as clobbering)
                ctx.ob("R3", "read_text:slice", ok, "decodes buffer[0..span.end-span.start] of the source slice saved before skipping", config=cfg)
                names = [sym.short(c[2]) for c in calls(p)]
                ctx.ob("R3", "read_text:uses-read_to_end", any(n.endswith("read_to_end") for n in names) and any(n.endswith("decode") for n in names), "skips with read_to_end and decodes with the reader's decoder", config=cfg)
        # the copy must be taken before read_to_end: check statement order in MIR (first use of self.reader precedes the call block)
        for b in bs:
            call_bb = [i for i, t in b.calls() if name_is(callee_of(t)[0] or "", "read_to_end")]
            copy_bb = [i for i, st in b.stmts() if st["r"]["k"] == "use" and "c" in st["r"]["o"] and any(isinstance(e, dict) and e.get("n") == "reader" for e in st["r"]["o"]["c"][1])]
            dom = b.dominators()
            ok = bool(call_bb) and bool(copy_bb) and all(copy_bb[0] in dom[c] for c in call_bb) and copy_bb[0] <= min(call_bb)
            ctx.ob("R3", "read_text:copy-before-skip", ok, "the source slice is copied in a block dominating the read_to_end call", config=cfg)


def r5_buffer_position(ctx):
    for cfg, F in ctx.facts.items():
        b = ctx.body(F, "reader::Reader::buffer_position", "R5")
        if b is None:
            continue
        vs = F.variants("reader::ParseState")
        for p in ctx.paths(b):
            if ends(p) != "ret":
                continue
            d = decision_on(p, lambda t: t[0] == "discr" and ends_with_fields(t[1], "state", "state"))
            r = ret_of(p)
            inside = isinstance(d, int) and vs[d] == "InsideMarkup"
            if inside:
                ok = r[0] == "bin" and r[1] == "Sub" and ends_with_fields(r[2], "state", "offset") and r[3] == ("c", "u64", 1)
            else:
                ok = r[0] == "pl" and ends_with_fields(r, "state", "offset")
            ctx.ob("R5", "buffer_position[%s]" % ("InsideMarkup" if inside else "other"), ok, "offset-1 exactly in state InsideMarkup (the '<' already consumed), offset otherwise: returns %s" % sym.show(r), config=cfg)


def r6_positions(ctx):
    """the reported span is made of reader positions: every source helper must advance the position by exactly what it
    consumed (C02 R2 / C08 R2 path summaries, re-evaluated here)"""
    import consume
    consume.check(ctx, "R6")


def r7_refills_are_retried(ctx):
    """Skipping an element reads through the same source helpers as everything else (peek_one, read_text, read_with,
    read_bang_element, skip_whitespace).  A buffered source may answer a refill with ErrorKind::Interrupted at any
    time; the helper must ask again, or read_to_end gives up in the middle of the element it was asked to consume
    (C18 R1 re-evaluated)."""
    import c18
    n0 = len(ctx.obs)
    c18.r1_refill(ctx)
    for o in ctx.obs[n0:]:
        o["rule"] = "R7"


RULES = [("R1", r1_restore), ("R2", r2_depth), ("R3", r3_read_text), ("R5", r5_buffer_position), ("R6", r6_positions), ("R7", r7_refills_are_retried)]
