"""C02 — Events are independent of the source type and of how input is chunked."""
from engine import *
from facts import strip_generics, callee_of
import sym
import c01, c12, consume

CONFIGS_QUICK = ["F_all", "F_def", "F_noenc"]  # every configuration whose cfg-gated code the property depends on
CONFIGS_THOROUGH = ["F_all", "F_def", "F_noenc"]
TECHNIQUE = 'static analysis: macro-provenance sibling check (async = sync macro bodies), path summaries consumed=advanced on MIR paths, loop-carried state rule, split-terminator table, running counters from loop back edges, one-whitespace-notion rule, exact-amount rule for the four raw-stream (BinaryStream) position updates'
EXPLANATION = (
    "Async bodies are instantiations of the same macro_rules! as their sync siblings (every statement of the async source "
    "helpers and event loop carries the macro provenance impl_buffered_source / read_event_impl / read_until_close / "
    "read_to_end, apart from building the TokioAdapter), so verdicts on the sync instantiation transfer and no state lives "
    "outside what the macro body keeps across .await; slice and buffered implementations of each XmlSource helper agree on "
    "their contract (scanner used, bytes returned, consumed = advanced on every path incl. the delimiter, EOF error kind); "
    "scanner state survives refills (the parser / bang kind is only written through feed/parse inside the loop and parse "
    "receives the part of the buffer that belongs to this construct); all three placements of a chunk cut inside `-->` / "
    "`]]>` are accepted."
)
ASSUMPTIONS = ["equality of event sequences for all inputs x cuts is not decided", "the BOM / encoding sniff looks at the first piece only (documented exception)"]

PAIRS = {"impl_buffered_source": ("remove_utf8_bom", "detect_encoding", "read_text", "read_with", "read_bang_element", "skip_whitespace", "peek_one")}


def own_stmt_ratio(body, macro):
    """(#terminators with the macro in their backtrace, #terminators without) over reachable non-trivial blocks"""
    inn = out = 0
    outs = []
    reach = body.reachable()
    for i, blk in enumerate(body.blocks):
        if i not in reach:
            continue
        t = blk["term"]
        if t["k"] not in ("call", "switch", "assert"):
            continue
        bt = body.span(t["s"])["bt"]
        if ("Bang:" + macro) in bt:
            inn += 1
        elif any(x.startswith("Desugar:") for x in bt) and not [x for x in bt if x.startswith("Bang:")]:
            # `.await` / `?` desugaring written at the instantiation site is not part of the macro
            out += 1
            outs.append(t)
        else:
            out += 1
            outs.append(t)
    return inn, out, outs


def r1_same_macros(ctx):
    for cfg, F in ctx.facts.items():
        if "async-tokio" not in F.features:
            ctx.ob("R1", "not-compiled", True, "no async reader without the async-tokio feature", config=cfg)
            continue
        n = 0
        for h in PAIRS["impl_buffered_source"]:
            a = F.bodies_matching(r"reader::async_tokio::TokioAdapter::%s::\{closure#0\}$" % h)
            s = F.bodies_with("buffered_reader", "XmlSource", end=h)
            if not a and not s:
                continue  # helper not compiled in this configuration (encoding on/off)
            n += 1
            ok = len(a) == 1 and len(s) == 1
            detail = ""
            if ok:
                ia, oa, outs = own_stmt_ratio(a[0], "impl_buffered_source")
                is_, os_, _ = own_stmt_ratio(s[0], "impl_buffered_source")
                ok = ia >= is_ and oa == 0 and os_ == 0 and is_ > 0
                detail = "sync %d/%d, async %d/%d terminators inside/outside the macro" % (is_, os_, ia, oa)
            ctx.ob("R1", "helper:%s" % h, ok, "the async helper is the same impl_buffered_source! body as the sync one (%s)" % detail, config=cfg)
        ctx.floor("R1", "helper pairs", n, 6, config=cfg)
        for macro, afn in (("read_event_impl", "read_event_into_async"), ("read_until_close", "read_until_close_async"), ("read_to_end", "read_to_end_into_async")):
            bodies = c12.macro_bodies(F, macro)
            asyncs = [b for b in bodies if "async_tokio" in b.path and "NsReader" not in b.path]
            syncs = [b for b in bodies if "async_tokio" not in b.path]
            ok = len(asyncs) == 1 and len(syncs) >= 1
            detail = ""
            if ok:
                ia, oa, outs = own_stmt_ratio(asyncs[0], macro)
                # outside the macro only: building TokioAdapter(&mut self.reader), wrapping Ok(..), buf.clear()
                allowed = 0
                for t in outs:
                    d = callee_of(t)[0] if t["k"] == "call" else None
                    if d and name_is(d, "clear", "from_output", "branch", "from_residual"):
                        allowed += 1
                ok = ia > 0 and oa - allowed == 0
                detail = "%d terminators inside the macro, %d outside (%d of them the documented wrappers)" % (ia, oa, allowed)
            ctx.ob("R1", "loop:%s" % afn, ok, "%s consists of the %s! body only (%s)" % (afn, macro, detail), config=cfg)


def r2_contract(ctx):
    consume.check(ctx, "R2")
    # scanner used per helper agrees between the two implementations
    for cfg, F in ctx.facts.items():
        want = {"read_text": "memchr", "read_with": "feed", "read_bang_element": "parse", "skip_whitespace": "position"}
        for h, scan in want.items():
            impls = [("slice", b) for b in F.bodies_with("slice_reader", "XmlSource", end=h)] + [("buffered", b) for b in F.bodies_with("buffered_reader", "XmlSource", end=h)]
            for kind, b in impls:
                names = {sym.short(callee_of(t)[0]).split("::")[-1] for _, t in b.calls() if callee_of(t)[0]}
                alts = {"position": ("position", "take_while", "find")}.get(scan, (scan,))
                ctx.ob("R2", "scanner:%s:%s" % (kind, h), any(a in names for a in alts), "%s %s scans with %s: %s" % (kind, h, "/".join(alts), sorted(names)[:8]), config=cfg)
            ctx.ob("R2", "scanner:%s:both" % h, len(impls) == 2, "both implementations exist", config=cfg)
        # '<' needle and whitespace predicate
        for kind, b in [("slice", x) for x in F.bodies_with("slice_reader", "XmlSource", end="read_text")] + [("buffered", x) for x in F.bodies_with("buffered_reader", "XmlSource", end="read_text")]:
            needles = {c01.c10int(c[3][0]) for p in ctx.paths(b) for c in calls(p) if name_is(c[2], "memchr")}
            ctx.ob("R2", "read_text:%s:needle" % kind, needles == {60}, "text runs end at '<': %s" % needles, config=cfg)
        # EOF error kinds agree (both use P::eof_error / to_err): C01 R2


def r3_carry(ctx):
    for cfg, F in ctx.facts.items():
        bodies = [("sync", b) for b in F.bodies_with("buffered_reader", "XmlSource", end="read_with")] + [("async", b) for b in F.bodies_matching(r"TokioAdapter::read_with::\{closure#0\}$")]
        for kind, b in bodies:
            # the parser local is passed by &mut to feed in the loop and assigned nowhere else inside the loop
            ploc = set()
            for p in ctx.paths(b):
                for c in calls(p):
                    if name_is(c[2], "feed") and c[3]:
                        r0 = root_of(strip_wrappers(c[3][0]))
                        if r0[0] in ("arg", "loc"):
                            ploc.add(r0[1])
                        elif r0[0] == "phi":
                            ploc.add(r0[2])
            ploc = sorted(ploc)
            w = sym.Walker(b)
            inloop = set()
            for h, ls in w.loop_written.items():
                inloop |= ls
            ctx.ob("R3", "read_with[%s]:parser-not-reset" % kind, bool(ploc) and not (set(ploc) & inloop), "the scanner state is created once, outside the refill loop, and only updated through feed(&mut parser)", config=cfg)
            fed = any(name_is(c[2], "feed") and strip_wrappers(c[3][0])[0] in ("arg", "pl", "loc", "phi") for p in ctx.paths(b) for c in calls(p))
            ctx.ob("R3", "read_with[%s]:feeds-parser" % kind, fed, "each refill is fed to the same parser", config=cfg)
        bodies = [("sync", b) for b in F.bodies_with("buffered_reader", "XmlSource", end="read_bang_element")] + [("async", b) for b in F.bodies_matching(r"TokioAdapter::read_bang_element::\{closure#0\}$")]
        for kind, b in bodies:
            # the user variable that holds the construct kind, identified by its type (not by its name)
            bloc = [l for l in b.names if isinstance(b.locals[l], str) and b.locals[l].split("<")[0].endswith("reader::BangType")]
            w = sym.Walker(b)
            inloop = set()
            for h, ls in w.loop_written.items():
                inloop |= ls
            ctx.ob("R3", "read_bang_element[%s]:kind-not-reset" % kind, bool(bloc) and not (set(bloc) & inloop), "the construct kind (with the DOCTYPE balance) is determined once before the refill loop", config=cfg)
            okarg = False
            for p in ctx.paths(b, max_paths=60000):
                for c in calls(p):
                    if name_is(c[2], "BangType::parse"):
                        a1 = c[3][1]
                        # buf[start..] with start = buf.len() at entry
                        okarg = has_subterm(a1, lambda s: call_is(s, "index") and s[3][1][0] == "agg" and s[3][1][2] == "RangeFrom" and call_is(s[3][1][3][0], "Vec::len"))
            ctx.ob("R3", "read_bang_element[%s]:own-part-of-buffer" % kind, okarg, "parse sees only the part of the user buffer that belongs to this construct (buf[start..], start = length at entry)", config=cfg)


def r4_split(ctx):
    n0 = len(ctx.obs)
    c01.r3_scanners(ctx)
    for o in ctx.obs[n0:]:
        o["rule"] = "R4"


def r5_whitespace_notion(ctx):
    """the slice and the buffered sources (and every later stage) must agree on what a blank is: one predicate, utils::is_whitespace"""
    for cfg, F in ctx.facts.items():
        one_whitespace_notion(ctx, "R5", F, cfg)
        b = ctx.body(F, "utils::is_whitespace", "R5")
        if b is not None:
            ctx.ob("R5", "is_whitespace", valueset(b) == {9, 10, 13, 32}, "XML whitespace = {tab, LF, CR, space}", config=cfg)


def _uncast(t):
    t = strip_wrappers(t)
    while t[0] == "cast":
        t = strip_wrappers(t[1])
    return t


def r6_stream(ctx):
    """Reader::stream(): the raw stream moves buffer_position by exactly what it hands out, in every sibling
    (Read::read, BufRead::consume, AsyncRead::poll_read, AsyncBufRead::consume), so that positions after a raw read
    do not depend on how the source cut the bytes into polls."""
    for cfg, F in ctx.facts.items():
        n = 0
        for b in F.bodies:
            bp = strip_generics(b.path)
            if "BinaryStream" not in bp or bp.split("::")[-1] not in ("read", "consume", "poll_read"):
                continue
            kind = bp.split("::")[-1]
            site = "BinaryStream:%s%s" % ("async:" if "async_tokio" in bp or "tokio" in bp else "", kind)
            for p in ctx.paths(b):
                if ends(p) != "ret":
                    continue
                order = {e[1]: i for i, e in enumerate(p) if e[0] == "call"}
                stores = [e for e in p if e[0] == "store" and ends_with_fields(e[2], "offset")]
                inner = [e for e in p if e[0] == "call" and name_is(e[2], kind) and e[3] and has_subterm(e[3][0], lambda s: s[0] == "pl" and ends_with_fields(s, "inner"))]
                ctx.ob("R6", site + ":forwards", len(inner) == 1, "the call is forwarded to the wrapped reader exactly once", config=cfg)
                if len(inner) != 1:
                    continue
                ic = inner[0]
                amounts = []
                for e in stores:
                    v = e[3]
                    amounts.append(_uncast(v[3]) if v[0] == "bin" and v[1] == "Add" and strip_wrappers(v[2]) == strip_wrappers(e[2]) else None)
                if kind == "consume":
                    ok = len(amounts) == 1 and amounts[0] is not None and amounts[0][0] == "arg" and amounts[0][1] == 2 and len(ic[3]) > 1 and _uncast(ic[3][1]) == amounts[0]
                    n += 1
                    ctx.ob("R6", site + ":amount", ok, "consume(amt) forwards amt and adds exactly amt to the position; adds %s" % [sym.show(a, 3) if a else a for a in amounts], config=cfg)
                elif kind == "read":
                    r = ret_of(p)
                    isok = r is not None and describe_ret(r, 0)[0][:1] == ("Ok",)
                    if isok:
                        got = _uncast(r[3][0]) if r[0] == "agg" else None
                        ok = len(amounts) == 1 and amounts[0] is not None and amounts[0] == got and tried(got) is not None and strip_wrappers(tried(got))[1] == ic[1]
                        n += 1
                        ctx.ob("R6", site + ":amount", ok, "read() adds exactly the count the wrapped reader reported, and returns it; adds %s" % [sym.show(a, 3) if a else a for a in amounts], config=cfg)
                    else:
                        ctx.ob("R6", site + ":error", not stores, "a failed read moves nothing", config=cfg)
                else:
                    neg = any(e[0] == "switch" and e[3] != 0 and has_subterm(e[2], lambda s: s[0] == "call" and s[1] == ic[1]) for e in p)
                    def delta(a):
                        if a is None or a[0] != "bin" or a[1] != "Sub":
                            return False
                        x, y = _uncast(a[2]), _uncast(a[3])
                        if call_is(x, "remaining") and call_is(y, "remaining"):
                            return order.get(x[1], 1 << 30) < order[ic[1]] < order.get(y[1], -1)
                        if call_is(x, "len") and call_is(y, "len"):
                            fx, fy = _uncast(x[3][0]), _uncast(y[3][0])
                            fx = fx[1] if fx[0] == "ref" else fx
                            fy = fy[1] if fy[0] == "ref" else fy
                            return call_is(fx, "filled") and call_is(fy, "filled") and order.get(fy[1], 1 << 30) < order[ic[1]] < order.get(fx[1], -1)
                        return False
                    if stores or not neg:
                        n += 1
                        ctx.ob("R6", site + ":amount", len(amounts) == 1 and delta(amounts[0]),
                               "poll_read adds exactly the bytes this poll put into the caller's buffer (space or fill measured before and after the wrapped poll); adds %s" % [sym.show(a, 3) if a else a for a in amounts], config=cfg)
        ctx.floor("R6", "raw-stream position updates", n, 4 if cfg in ("F_all",) else 2, config=cfg)


RULES = [("R1", r1_same_macros), ("R2", r2_contract), ("R3", r3_carry), ("R4", r4_split), ("R5", r5_whitespace_notion), ("R6", r6_stream)]
