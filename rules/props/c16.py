"""C16 — Reader options change the event stream only in their documented way."""
from engine import *
from facts import strip_generics, callee_of
import sym
import scan
import c04
import c12

CONFIGS_QUICK = ["F_all", "F_def"]  # every configuration whose cfg-gated code the property depends on
CONFIGS_THOROUGH = ["F_all", "F_def"]
TECHNIQUE = 'static analysis: who-reads-which-flag confinement over all Config field reads in the crate, option-only-adds path rules, sibling contradiction rule (is_empty guard) on Text-producing paths, save/restore of the one option written while reading, comment-scan window rule, End-payload rule on every End exit of emit_end'
EXPLANATION = (
    "Flag confinement: every read of a reader::Config field in the whole crate is enumerated (operands whose place "
    "projects a field of Config) and must lie in the function documented for that flag (end-tag flags only in emit_end, "
    "check_comments only in emit_bang, expand_empty_elements only in emit_start, trim_text_end only in emit_text, "
    "trim_text_start only in the InsideText arm of the event loop and the save/restore of read_to_end!); the "
    "check_comments block can only add the DoubleHyphenInComment error and otherwise reaches the same Ok construction; "
    "the trim branches only shorten from the right with is_whitespace; every Event::Text built from emit_text's result "
    "must be control dependent on an is_empty test of that result (texts that become empty are dropped on every "
    "producing path); expand-empty table as in C04 R3."
)
ASSUMPTIONS = ["Config is only reachable through Reader::config()/config_mut() (fields are pub, so user code may read them; only crate code is analysed)"]

ALLOWED = {
    "allow_unmatched_ends": ("ReaderState::emit_end",),
    "check_end_names": ("ReaderState::emit_end",),
    "trim_markup_names_in_closing_tags": ("ReaderState::emit_end",),
    "check_comments": ("ReaderState::emit_bang",),
    "expand_empty_elements": ("ReaderState::emit_start",),
    "trim_text_end": ("ReaderState::emit_text",),
    "trim_text_start": ("@read_event_impl", "@read_to_end"),
}


def config_reads(body):
    """[(field, span)] for every operand / borrowed place of the body that projects a Config field."""
    out = []

    def place(pl, sp):
        for e in pl[1]:
            if isinstance(e, dict) and e.get("of") == "quick_xml::reader::Config":
                out.append((e["n"], sp))

    def operand(o, sp):
        if "c" in o:
            place(o["c"], sp)
        elif "m" in o:
            place(o["m"], sp)

    def rvalue(r, sp):
        k = r["k"]
        if k in ("use", "cast", "repeat"):
            operand(r["o"], sp)
        elif k == "ref" or k == "rawptr" or k == "discr":
            place(r["p"], sp)
        elif k == "bin":
            operand(r["a"], sp)
            operand(r["b"], sp)
        elif k == "un":
            operand(r["a"], sp)
        elif k == "agg":
            for o in r["ops"]:
                operand(o, sp)

    reach = body.reachable()
    for i, blk in enumerate(body.blocks):
        if i not in reach:
            continue
        for st in blk["stmts"]:
            if "r" in st:
                rvalue(st["r"], st["s"])
        t = blk["term"]
        if t["k"] == "switch":
            operand(t["o"], t["s"])
        elif t["k"] in ("call", "tailcall"):
            for a in t["args"]:
                operand(a, t["s"])
        elif t["k"] == "assert":
            operand(t["cond"], t["s"])
    return out


def r1_confinement(ctx):
    for cfg, F in ctx.facts.items():
        n = 0
        seen_flags = set()
        for b in F.bodies:
            if is_derive(b):
                continue
            reads = config_reads(b)
            if not reads:
                continue
            bp = strip_generics(b.path)
            for fld, sp in reads:
                n += 1
                seen_flags.add(fld)
                allowed = ALLOWED.get(fld)
                if allowed is None:
                    ctx.ob("R1", "%s:reads:%s" % (sym.short(bp), fld), False, "read of an unknown Config field (new option? extend the reference table)", loc=b.loc(sp), config=cfg)
                    continue
                ok = False
                for a in allowed:
                    if a.startswith("@"):
                        if ("Bang:" + a[1:]) in b.span(sp)["bt"]:
                            ok = True
                    elif name_is(bp, a) or name_is(bp.split("::{closure")[0], a):
                        ok = True
                ctx.ob("R1", "%s:reads:%s" % (sym.short(bp.replace("::{closure#0}", "")), fld), ok,
                       "Config::%s may only be read in %s; it is read in %s" % (fld, ", ".join(allowed), sym.short(bp)), loc=b.loc(sp), config=cfg)
        ctx.floor("R1", "reads of Config fields", n, 9, config=cfg)
        ctx.ob("R1", "all-flags-seen", seen_flags == set(ALLOWED), "every documented flag is read somewhere: missing %s" % sorted(set(ALLOWED) - seen_flags), config=cfg)
        a = F.adt("reader::Config")
        flds = [f["name"] for f in a["variants"][0]["fields"]] if a else []
        ctx.ob("R1", "Config:fields", sorted(flds) == sorted(ALLOWED), "the reference table covers exactly the fields of Config: %s" % flds, config=cfg)
        # trim_text_start in the event loop: only in the InsideText arm
        for b in c12.macro_bodies(F, "read_event_impl"):
            vs = F.variants("reader::ParseState")
            nm = sym.short(strip_generics(b.path).replace("::{closure#0}", ""))
            for p in ctx.paths(b, max_paths=60000):
                st = decision_on(p, lambda t: t[0] == "discr" and ends_with_fields(t[1], "state", "state"))
                tested = decision_on(p, lambda t: ends_with_fields(t, "config", "trim_text_start"))
                if tested is not None:
                    ctx.ob("R1", "%s:trim_text_start-arm" % nm, isinstance(st, int) and vs[st] == "InsideText", "trim_text_start is consulted only in state InsideText", config=cfg)
                    skips = [c for c in calls(p) if name_is(c[2], "skip_whitespace")]
                    ctx.ob("R1", "%s:trim_text_start[%s]" % (nm, tested != 0), (len(skips) >= 1) == (tested != 0), "skip_whitespace is called iff the flag is set", config=cfg)


def r2_only_adds(ctx):
    for cfg, F in ctx.facts.items():
        b = ctx.body(F, "reader::state::ReaderState::emit_bang", "R2")
        if b is None:
            continue
        ok_shapes = set()
        rows = 0
        for p in ctx.paths(b):
            cc = decision_on(p, lambda t: is_self_field(t, "config", "check_comments"))
            if cc is None or ends(p) not in ("ret", "loop"):
                continue
            r = ret_of(p)
            stores = [e for e in p if e[0] == "store" and root_of(e[2])[0] == "arg" and root_of(e[2])[2] == "self"]
            if ends(p) == "loop":
                continue
            rows += 1
            rv = describe_ret(r, 2)[0]
            if cc == 0:
                ctx.ob("R2", "emit_bang:comment[check=off]", rv[:2] == ("Ok", "Comment") and not stores, "without the check the comment is returned and nothing is written", config=cfg)
                ok_shapes.add(comment_slice(r))
            else:
                if rv[:1] == ("Err",):
                    good = rv[:3] == ("Err", "IllFormed", "DoubleHyphenInComment") and all(is_self_field(e[2], "last_error_offset") for e in stores) and len(stores) == 1
                    ctx.ob("R2", "emit_bang:comment[check=on]:error", good, "the only error the option can add is DoubleHyphenInComment, setting only the error position", config=cfg)
                else:
                    ctx.ob("R2", "emit_bang:comment[check=on]:ok", rv[:2] == ("Ok", "Comment") and not stores, "otherwise the same Comment event is returned", config=cfg)
                    ok_shapes.add(comment_slice(r))
        scan.comment_scan(ctx, "R2", F, cfg)
        ctx.ob("R2", "emit_bang:comment:same-payload", len(ok_shapes) == 1 and None not in ok_shapes, "the Comment payload does not depend on the option: %s" % ok_shapes, config=cfg)
        ctx.floor("R2", "Comment rows of emit_bang", rows, 2, config=cfg)
        # emit_text: the trim branch only right-trims with is_whitespace
        t = ctx.body(F, "reader::state::ReaderState::emit_text", "R2")
        if t is not None:
            for p in ctx.paths(t):
                if ends(p) != "ret":
                    continue
                fl = decision_on(p, lambda x: is_self_field(x, "config", "trim_text_end"))
                r = ret_of(p)
                arg = r[3][0] if call_is(r, "BytesText::wrap") else None
                if fl == 0:
                    ctx.ob("R2", "emit_text[trim_end=off]", arg is not None and strip_wrappers(arg)[0] == "arg", "without trimming the bytes are wrapped unchanged", config=cfg)
                else:
                    good = arg is not None and has_subterm(arg, lambda s: call_is(s, "index") and variant_of(s[3][1]) and variant_of(s[3][1])[1] == "RangeTo" and strip_wrappers(s[3][0])[0] == "arg")
                    # the kept length is derived from rposition (p + 1), or 0 when nothing but whitespace was found
                    rp = any(name_is(c[2], "rposition") for c in calls(p))
                    bound = [s2[3][1][3][0] for s2 in sym.subterms(arg) if call_is(s2, "index") and variant_of(s2[3][1]) and variant_of(s2[3][1])[1] == "RangeTo"] if arg is not None else []
                    good = good and rp and bool(bound) and (has_subterm(bound[0], lambda s: call_is(s, "rposition")) or bound[0] == ("c", "usize", 0))
                    ctx.ob("R2", "emit_text[trim_end=on]", good, "trimming keeps a prefix bytes[..len] found by rposition", config=cfg)
            c0 = F.closure("quick_xml::reader::state::ReaderState::emit_text::{closure#0}")
            ok = c0 is not None and [name_is(callee_of(t2)[0] or "", "is_whitespace") for _, t2 in c0.calls()] == [True]
            ctx.ob("R2", "emit_text:predicate", ok, "the trim predicate is !is_whitespace", config=cfg)


def comment_slice(r):
    for s in sym.subterms(r):
        if call_is(s, "index") and s[3][1][0] == "agg" and s[3][1][2] == "Range":
            return sym.show(s[3][1], 2)
    return None


def r3_empty_dropped(ctx):
    for cfg, F in ctx.facts.items():
        bodies = c12.macro_bodies(F, "read_event_impl")
        ctx.floor("R3", "instantiations of read_event_impl!", len(bodies), 2 if "async-tokio" in F.features else 1, config=cfg)
        vs = F.variants("reader::ReadTextResult") or []
        for b in bodies:
            nm = sym.short(strip_generics(b.path).replace("::{closure#0}", ""))
            n = 0
            for p in ctx.paths(b, max_paths=60000):
                r = ret_of(p)
                if r is None:
                    continue
                rv = describe_ret(r, 1)[0]
                if rv[:2] != ("Ok", "Text"):
                    continue
                et = [s for s in sym.subterms(r) if call_is(s, "emit_text")]
                if not et:
                    continue
                n += 1
                et = et[0]
                arm = decision_on(p, lambda t: t[0] == "discr" and (call_is(c12.unawait(t[1]), "read_text")))
                armn = vs[arm] if isinstance(arm, int) and arm < len(vs) else str(arm)
                tested = any(e[0] == "switch" and has_subterm(e[2], lambda s: call_is(s, "is_empty")) and has_subterm(e[2], lambda s: s == et) and
                             ((e[3] == 0) == (not name_is(e[2][2] if e[2][0] == "call" else "", "not"))) for e in p)
                ctx.ob("R3", "%s:Text[%s]:empty-dropped" % (nm, armn), tested,
                       "a Text event built from emit_text's result must be guarded by an is_empty test of that result (a text that becomes empty after trimming must be dropped); the %s arm returns it unconditionally" % armn,
                       loc=b.loc(first_span(p, et)), config=cfg)
            ctx.floor("R3", "Text-producing paths of " + nm, n, 2, config=cfg)


def first_span(p, t):
    for e in p:
        if e[0] == "call" and e[1] == t[1]:
            return e[4]
    return 0


def r4_expand(ctx):
    c04.r3_push(ctx)
    for o in ctx.obs:
        if o["rule"] == "R3" and (o["site"].startswith("emit_start") or o["site"].startswith("close_expanded_empty") or o["site"].startswith("floor:returning paths of emit_start")):
            o["rule"] = "R4"


def r5_setters(ctx):
    for cfg, F in ctx.facts.items():
        want = {"trim_text": {"trim_text_start", "trim_text_end"}, "enable_all_checks": {"check_comments", "check_end_names"}}
        for fn, fields in want.items():
            b = ctx.body(F, "reader::Config::" + fn, "R5")
            if b is None:
                continue
            got = {}
            for p in ctx.paths(b):
                for e in p:
                    if e[0] == "store":
                        got[fields_of(e[2])[-1]] = e[3]
            ok = set(got) == fields and all(v[0] == "arg" for v in got.values())
            ctx.ob("R5", "Config::" + fn, ok, "%s(x) sets exactly %s to x: %s" % (fn, sorted(fields), {k: sym.show(v) for k, v in got.items()}), config=cfg)
        d = F.bodies_with("reader::Config", "Default", end="default")
        for b in d:
            for p in ctx.paths(b):
                r = ret_of(p)
                if r is not None and r[0] == "agg":
                    a = F.adt("reader::Config")
                    names = [f["name"] for f in a["variants"][0]["fields"]]
                    vals = {n: v[2] for n, v in zip(names, r[3]) if v[0] == "c"}
                    ref = {"allow_unmatched_ends": False, "check_comments": False, "check_end_names": True, "expand_empty_elements": False,
                           "trim_markup_names_in_closing_tags": True, "trim_text_start": False, "trim_text_end": False}
                    ctx.ob("R5", "Config::default", vals == ref, "documented defaults: %s" % vals, config=cfg)
        # who writes Config fields at all (outside Config's own impls): read_to_end! (save/restore) and the deserializer constructors
        writers = set()
        for b in F.bodies:
            if is_derive(b):
                continue
            for _, st in b.stmts():
                pl = st.get("p")
                if pl and pl[1] and any(isinstance(e, dict) and e.get("of") == "quick_xml::reader::Config" for e in pl[1]):
                    writers.add(sym.short(strip_generics(b.path).replace("::{closure#0}", "")))
        allowed = {"Config::trim_text", "Config::enable_all_checks", "slice_reader::read_to_end", "buffered_reader::read_to_end_into", "async_tokio::read_to_end_into_async",
                   "Deserializer::from_str_with_resolver", "Deserializer::with_resolver"}
        ctx.ob("R5", "Config:writers", writers <= allowed, "only the documented setters, read_to_end! (save/restore) and the deserializer constructors write Config fields: %s" % sorted(writers - allowed), config=cfg)


def r6_trim_start_impl(ctx):
    """trim_text_start is implemented by XmlSource::skip_whitespace: both implementations must skip the
    whole whitespace run (the buffered one across refills) and account for it in the position."""
    import consume
    for cfg, F in ctx.facts.items():
        consume.refill_completeness(ctx, "R6", F, cfg)
        one_whitespace_notion(ctx, "R6", F, cfg)
        consume.slice_impl(ctx, "R6", F, cfg)
        for b in F.bodies_with("slice_reader", "XmlSource", end="skip_whitespace"):
            ok = False
            for p in ctx.paths(b):
                for c in calls(p):
                    if name_is(c[2], "unwrap_or") and call_is(c[3][0], "position") and call_is(c[3][1], "len"):
                        ok = True
                    if name_is(c[2], "count") and call_is(c[3][0], "take_while"):
                        ok = True  # equivalent spelling: number of leading bytes satisfying the predicate
            ctx.ob("R6", "slice:skip_whitespace:all", ok, "the slice source skips up to the first non-whitespace byte, or everything if there is none", config=cfg)
    ctx.obs[:] = [o for o in ctx.obs if not (o["rule"] == "R6" and "skip_whitespace" not in o["site"] and "whitespace" not in o["site"] and not o["site"].startswith("floor:"))]


def r7_options_stay(ctx):
    """The options are the user's: the only code that writes one while reading is read_to_end, which clears
    trim_text_start for the duration of the skip.  Unless it writes the saved value back on every exit (errors
    included), every later text event is read with an option the user did not choose.  C12's save/restore rule is
    re-evaluated here."""
    import c12
    n0 = len(ctx.obs)
    c12.r1_restore(ctx)
    for o in ctx.obs[n0:]:
        o["site"] = "read_to_end:" + o["site"]
        o["rule"] = "R7"


def r8_end_name(ctx):
    """trim_markup_names_in_closing_tags applies to every End event emit_end produces (matched, unchecked or
    dangling-but-allowed alike): with the option on and a non-blank byte found from the right, the payload is the cut
    ending at that byte; with the option off it is everything after the `/`."""
    for cfg, F in ctx.facts.items():
        b = ctx.body(F, "reader::state::ReaderState::emit_end", "R8")
        if b is None:
            continue
        n = 0
        for p in ctx.paths(b):
            r = ret_of(p)
            if ends(p) != "ret" or r is None or describe_ret(r, 1)[0][:2] != ("Ok", "End"):
                continue
            trim = decision_on(p, lambda t: is_self_field(strip_wrappers(t), "trim_markup_names_in_closing_tags") or (t[0] == "pl" and ends_with_fields(t, "trim_markup_names_in_closing_tags")))
            found = [e for e in p if e[0] == "switch" and e[2][0] == "discr" and call_is(strip_wrappers(e[2][1]), "rposition", "rfind", "position")]
            cut = bool(found) and found[0][3] == 1
            scan = strip_wrappers(found[0][2][1]) if found else None
            payload = r[3][0][3][0] if r[0] == "agg" and r[3] and r[3][0][0] == "agg" and r[3][0][3] else r
            uses = scan is not None and has_subterm(payload, lambda s: s[0] == "call" and s[1] == scan[1])
            ranged = has_subterm(payload, lambda s: s[0] == "agg" and s[2] in ("RangeTo", "RangeToInclusive", "Range"))
            n += 1
            if trim not in (None, 0) and cut:
                ctx.ob("R8", "emit_end:End[trim,name found]", uses, "the End payload must be the name cut at the last non-blank byte on every exit", config=cfg)
            elif trim == 0:
                ctx.ob("R8", "emit_end:End[no trim]", not ranged, "with the option off nothing is cut from the end of the name", config=cfg)
        ctx.floor("R8", "End exits of emit_end", n, 6, config=cfg)


RULES = [("R1", r1_confinement), ("R2", r2_only_adds), ("R3", r3_empty_dropped), ("R4", r4_expand), ("R5", r5_setters), ("R6", r6_trim_start_impl), ("R7", r7_options_stay), ("R8", r8_end_name)]
