"""C08 — Positions account for every byte; reading then writing reproduces the input."""
from engine import *
import sym
import writer_tab as wt
import c01, c03, c12, consume

CONFIGS_QUICK = ["F_all", "F_def"]  # every configuration whose cfg-gated code the property depends on
CONFIGS_THOROUGH = ["F_all", "F_def"]
TECHNIQUE = 'static analysis: writer/reader delimiter tables against one reference, consumed=advanced path summaries, who-may-write rule for the offset, diagonal variant table of Event::borrow / into_owned'
EXPLANATION = (
    "Reader and writer delimiter tables agree: the writer's per-event literals (extracted from Writer::write_event) and the "
    "reader's detection/stripping constants (emit_bang, emit_question_mark, emit_start, dispatch) are both compared with one "
    "reference table, so |before| = '<' + stripped prefix and |after| = stripped suffix + '>'; consumed = advanced on every "
    "path of both XmlSource implementations (slice: bytes cut from the slice = amount added to the position; buffered: "
    "position += running count + consume() amounts, running count += consumed round the loop; the delimiter is consumed but "
    "not copied); buffer_position table; nothing else moves the offset (who-may-write rule)."
)
ASSUMPTIONS = ["tiling and byte-for-byte reproduction for all inputs are not decided"]


def r1_tables(ctx):
    for cfg, F in ctx.facts.items():
        b = ctx.body(F, "writer::Writer::write_event", "R1")
        if b is not None:
            wt.check_table(ctx, "R1", F, cfg, b, "writer")
    n0 = len(ctx.obs)
    c01.r4_delimiters(ctx)
    c01.r1_dispatch(ctx)
    for o in ctx.obs[n0:]:
        o["site"] = "reader:" + o["site"]
        o["rule"] = "R1"


def r2_consumed(ctx):
    consume.check(ctx, "R2")


def r3_position(ctx):
    n0 = len(ctx.obs)
    c12.r5_buffer_position(ctx)
    for o in ctx.obs[n0:]:
        o["rule"] = "R3"


def r4_who_writes(ctx):
    n0 = len(ctx.obs)
    c03.r4_positions(ctx)
    for o in ctx.obs[n0:]:
        o["rule"] = "R4"


def r5_whole_writes(ctx):
    """what the writer emits reaches the sink completely: sinks are written only through write_all (C13 R5)"""
    import c13
    n0 = len(ctx.obs)
    c13.r5_no_partial_write(ctx)
    for o in ctx.obs[n0:]:
        o["site"] = "sink:" + o["site"]
        o["rule"] = "R5"

def r6_whitespace(ctx):
    """the spacing that the round trip is allowed to normalise (after the DOCTYPE keyword, in end tags) is XML white
    space and nothing else: one notion of white space in the crate, with exactly the four characters (C01 R5)"""
    import c01
    n0 = len(ctx.obs)
    c01.r5_whitespace(ctx)
    for o in ctx.obs[n0:]:
        o["site"] = "whitespace:" + o["site"]
        o["rule"] = "R6"


def r7_conversions_keep_the_kind(ctx):
    """Events are written by value, so a caller that holds one by reference writes `event.borrow()`, and one that
    keeps events writes `into_owned()`: both conversions map every variant to the same variant (Comment and DocType
    carry the same payload type, so the compiler does not notice a swap)."""
    for cfg, F in ctx.facts.items():
        evs = F.variants("events::Event")
        for fn in ("borrow", "into_owned"):
            b = ctx.body(F, "events::Event::" + fn, "R7")
            if b is None:
                continue
            rows = {}
            for p in ctx.paths(b):
                r = ret_of(p)
                if ends(p) != "ret" or r is None:
                    continue
                d = decision_on(p, lambda t: t[0] == "discr" and root_of(t[1])[0] == "arg" and root_of(t[1])[1] == 1)
                if not isinstance(d, int):
                    continue
                rows[evs[d]] = r[2] if r[0] == "agg" else sym.show(r, 1)
            ctx.ob("R7", "Event::%s:diagonal" % fn, len(rows) == len(evs) and all(k == v for k, v in rows.items()), "every variant converts to itself: %s" % {k: v for k, v in rows.items() if k != v}, config=cfg)


RULES = [("R1", r1_tables), ("R2", r2_consumed), ("R3", r3_position), ("R4", r4_who_writes), ("R5", r5_whole_writes), ("R6", r6_whitespace), ("R7", r7_conversions_keep_the_kind)]
