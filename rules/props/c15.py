"""C15 — Deserialized values do not depend on lexical presentation."""
from engine import *
from facts import strip_generics, callee_of
import sym
import c07, c06

CONFIGS_QUICK = ["F_all", "F_nool"]  # every configuration whose cfg-gated code the property depends on
CONFIGS_THOROUGH = ["F_all", "F_nool"]
TECHNIQUE = 'static analysis: decision table of StartTrimmer::trim, merge/drop-set rules of XmlReader, call-graph rule for ignored content, who-may-call rule for text-piece unescaping (resolver on every piece), skip-without-buffer table, one-whitespace-notion rule, unescaping rules (C10) re-evaluated'
EXPLANATION = (
    "StartTrimmer::trim table per Event variant (Comment, PI, Decl dropped without touching trim_start; DocType, Start, End, "
    "Eof passed and the next text start-trimmed; CData passed, next text not trimmed; Text dropped iff trim_start and empty "
    "after in-place start trimming, else passed, next not trimmed); merge table of XmlReader (Text and CData append to one "
    "accumulator, end-trimming only for the last piece, nothing else dropped after the lookahead: rules J4 of C07); both "
    "deserializer constructors set expand_empty_elements so `<x/>` and `<x></x>` are the same events; unknown content is "
    "skipped, not interpreted (deserialize_ignored_any -> deserialize_unit -> read_to_end for Start in every deserializer that "
    "instantiates deserialize_primitives!)."
)
ASSUMPTIONS = ["attribute order / quote kind independence follows from serde's by-name visitors and C11; not decided here"]


def r1_trim_table(ctx):
    for cfg, F in ctx.facts.items():
        b = ctx.body(F, "de::StartTrimmer::trim", "R1")
        if b is None:
            continue
        evs = F.variants("events::Event")
        rows = {}
        for p in ctx.paths(b):
            if ends(p) != "ret":
                continue
            d = decision_on(p, lambda t: t[0] == "discr" and t[1][0] == "arg" and t[1][2] == "event")
            r = ret_of(p)
            st = [e for e in p if e[0] == "store" and is_self_field(e[2], "trim_start")]
            flag = st[-1][3][2] if st and st[-1][3][0] == "c" else ("unchanged" if not st else "?")
            if r[0] == "agg" and r[2] == "None":
                out = "dropped"
            elif r[0] == "agg" and r[2] == "Some" and r[3][0][0] == "agg":
                out = "passed:" + r[3][0][2]
            else:
                out = sym.show(r, 2)
            names = []
            if isinstance(d, int):
                names = [evs[d]]
            elif d == "else":
                listed = [e[4] for e in p if e[0] == "switch" and e[2][0] == "discr" and e[2][1][0] == "arg"][0]
                names = [v for i, v in enumerate(evs) if i not in listed]
            ts = decision_on(p, lambda t: is_self_field(t, "trim_start"))
            emp = decision_on(p, lambda t: call_is(t, "inplace_trim_start"))
            for nme in names:
                rows.setdefault(nme, set()).add((out, flag, None if ts is None else ts != 0, None if emp is None else emp != 0))
        want = {
            "Comment": {("dropped", "unchanged", None, None)}, "PI": {("dropped", "unchanged", None, None)}, "Decl": {("dropped", "unchanged", None, None)},
            "DocType": {("passed:DocType", True, None, None)}, "Start": {("passed:Start", True, None, None)}, "End": {("passed:End", True, None, None)},
            "Eof": {("passed:Eof", True, None, None)}, "CData": {("passed:CData", False, None, None)},
            "Text": {("dropped", "unchanged", True, True), ("passed:Text", False, True, False), ("passed:Text", False, False, None)},
        }
        for ev, w in want.items():
            ctx.ob("R1", "trim[%s]" % ev, rows.get(ev) == w, "StartTrimmer row for %s must be %s (outcome, trim_start afterwards, trim_start tested, empty after trimming); extracted %s" % (ev, sorted(w, key=str), sorted(rows.get(ev, []), key=str)), config=cfg)
        ctx.ob("R1", "trim:exhaustive", set(rows) == set(want) | {"Empty"} or set(rows) == set(want), "every Event variant has a row: %s" % sorted(rows), config=cfg)
        # Empty never reaches the trimmer (expand_empty_elements), it falls into the catch-all: must be dropped-without-effect or absent
        if "Empty" in rows:
            ctx.ob("R1", "trim[Empty]", rows["Empty"] == {("dropped", "unchanged", None, None)}, "Empty events are not produced with expand_empty_elements; the catch-all drops them", config=cfg)
        d = F.bodies_with("de::StartTrimmer", "Default", end="default")
        ok = any(ret_of(p) is not None and ret_of(p)[0] == "agg" and ret_of(p)[3][0] == ("c", "bool", True) for b2 in d for p in ctx.paths(b2))
        ctx.ob("R1", "trim:initial", ok, "the very first text is start-trimmed (trim_start starts as true)", config=cfg)
        # both XmlRead impls run every event through the trimmer before anything else sees it
        for ty in ("IoReader", "SliceReader"):
            for x in F.bodies_with("de::" + ty, "XmlRead", end="next"):
                for p in ctx.paths(x):
                    r = ret_of(p)
                    if r is None or describe_ret(r, 0)[0][:1] != ("Ok",):
                        continue
                    ctx.ob("R1", "%s::next:through-trimmer" % ty, has_subterm(r, lambda s: s[0] == "pl" and call_is(s[1], "trim")), "returned events are what StartTrimmer::trim passed", config=cfg)


def r2_merge(ctx):
    n0 = len(ctx.obs)
    c07.j4_merging(ctx)
    for o in ctx.obs[n0:]:
        o["rule"] = "R2"
    for cfg, F in ctx.facts.items():
        dt = ctx.body(F, "de::XmlReader::drain_text", "R2")
        if dt is None:
            continue
        pv = F.variants("de::PayloadEvent")
        acc = {}
        for p in ctx.paths(dt):
            d = [e for e in p if e[0] == "switch" and e[2][0] == "discr" and e[2][1][0] == "pl" and has_subterm(e[2], lambda s: call_is(s, "next_impl")) and any(isinstance(x, tuple) and x[0] == "d" and x[2] in ("Continue", "Ok") for x in e[2][1][2])]
            if not d or not isinstance(d[-1][3], int):
                continue
            v = pv[d[-1][3]]
            push = [c for c in calls(p) if name_is(c[2], "push_str")]
            if push:
                tgt = push[0][3][0]
                trim = any(name_is(c[2], "inplace_trim_end") for c in calls(p))
                last = [e[3] for e in p if e[0] == "switch" and call_is(e[2], "current_event_is_last_text")]
                acc.setdefault(v, set()).add((has_subterm(tgt, lambda s: call_is(s, "to_mut")), trim, tuple(x != 0 for x in last)))
        ok = set(acc) == {"Text", "CData"} and all(t[0] for v in acc.values() for t in v)
        ctx.ob("R2", "drain_text:same-accumulator", ok, "Text and CData pieces are appended to the same accumulator: %s" % {k: sorted(v) for k, v in acc.items()}, config=cfg)
        trims = [t for t in acc.get("Text", []) if t[1]]
        ctx.ob("R2", "drain_text:end-trim-last-only", bool(trims) and all(t[2][-1] for t in trims) and not any(t[1] for t in acc.get("CData", [])),
               "only a Text piece that is the last of its run is end-trimmed, CDATA never", config=cfg)


def r3_expand(ctx):
    n0 = len(ctx.obs)
    c07.j3_config(ctx)
    for o in ctx.obs[n0:]:
        o["rule"] = "R3"


def r4_unknown_skipped(ctx):
    for cfg, F in ctx.facts.items():
        n = 0
        for b in F.bodies:
            bp = strip_generics(b.path)
            if not bp.endswith("::deserialize_ignored_any") or "src/de/" not in b.span(b.j["span"])["root"]:
                continue
            if "Bang:deserialize_primitives" not in b.span(b.j["span"])["bt"]:
                continue  # value-holding deserializers (keys, simple types, text) do not consume events
            n += 1
            cs = [sym.short(c[2]).split("::")[-1] for p in ctx.paths(b) for c in calls(p)]
            ctx.ob("R4", "%s" % sym.short(bp.rsplit("::", 1)[0]) + "::deserialize_ignored_any", cs and set(cs) <= {"deserialize_unit", "visit_unit"}, "ignored content is consumed as a unit: %s" % sorted(set(cs)), config=cfg)
        ctx.floor("R4", "deserialize_ignored_any impls in src/de", n, 3, config=cfg)
        for b in F.bodies_with("de::Deserializer", "Deserializer<'de>", end="deserialize_unit") + F.bodies_with("de::map::MapValueDeserializer", end="deserialize_unit") + F.bodies_with("de::map::ElementDeserializer", end="deserialize_unit"):
            fn = sym.short(strip_generics(b.path))
            seen = {}
            for p in ctx.paths(b, max_paths=60000):
                r = ret_of(p)
                if r is None:
                    continue
                nx = decision_on(p, c07.is_next_discr)
                if isinstance(nx, int):
                    var = c07.devar(F, nx)
                    seen[var] = [sym.short(c[2]).split("::")[-1] for c in calls(p) if name_is(c[2], "read_to_end", "visit_unit")]
            if "Start" in seen:
                ctx.ob("R4", fn + "[Start]", "read_to_end" in seen["Start"], "an ignored element is skipped up to its end tag (read_to_end) without interpreting its content: %s" % seen["Start"], config=cfg)
            if "Text" in seen:
                ctx.ob("R4", fn + "[Text]", seen["Text"] == ["visit_unit"] or "visit_unit" in seen["Text"], "ignored text is dropped", config=cfg)


def r5_trimmer_in_sync(ctx):
    """The start-trimming decision depends on the last event the reader consumed. Every XmlRead method that lets the
    underlying reader consume events must bring the trimmer state up to date on its success path: `next` does it
    through StartTrimmer::trim; a skip that ends with an End event must leave the state as after an End
    (otherwise whitespace after a skipped unknown element is kept or dropped depending on what the element contained)."""
    for cfg, F in ctx.facts.items():
        n = 0
        for ty in ("SliceReader", "IoReader"):
            for b in F.bodies_with("de::" + ty, "XmlRead"):
                meth = strip_generics(b.path).split("::")[-1]
                consuming = [(i, t) for i, t in b.calls() if name_is(callee_of(t)[0] or "", "read_event", "read_event_into", "read_to_end", "read_to_end_into", "read_text")]
                if not consuming:
                    continue
                for p in ctx.paths(b):
                    ks = [k for k, e in enumerate(p) if e[0] == "call" and name_is(e[2], "read_event", "read_event_into", "read_to_end", "read_to_end_into", "read_text")]
                    if not ks or p[-1][0] not in ("ret", "loop"):
                        continue
                    if p[-1][0] == "ret":
                        r = ret_of(p)
                        rv = describe_ret(r, 0)[0]
                        if rv[:1] == ("Err",) or (r[0] == "call" and name_is(r[2], "from_residual")) or is_error_exit(p):
                            continue
                    n += 1
                    tail = p[ks[-1] + 1:]
                    synced = any(e[0] == "call" and name_is(e[2], "StartTrimmer::trim") for e in tail) or \
                        any(e[0] == "store" and has_subterm(e[2], lambda s: s[0] == "pl" and ("start_trimmer" in fields_of(s) or "trim_start" in fields_of(s))) for e in tail)
                    ctx.ob("R5", "%s::%s:trimmer-in-sync" % (ty, meth), synced,
                           "%s::%s lets the reader consume events (%s) but leaves the start-trimming state as it was before them: after a skipped element the next text is trimmed or not depending on the last event read *before* the skip" % (ty, meth, sym.short(p[ks[-1]][2]).split("::")[-1]),
                           loc=b.loc(p[ks[-1]][4]), config=cfg)
        ctx.floor("R5", "event-consuming success paths of the XmlRead impls", n, 4, config=cfg)


def r6_pieces_decoded_alike(ctx):
    """A logical text may reach the deserializer in one piece or, when a comment, PI or CDATA section is inserted,
    in several: XmlReader::next converts the first piece and drain_text every later one.  Every conversion of a Text
    piece inside the deserializer must therefore go through the configured entity resolver (unescape_with whose
    closure calls EntityResolver::resolve on self.entity_resolver), none through the default-entities-only unescape()."""
    for cfg, F in ctx.facts.items():
        n = 0
        for b, i, t in callers_of(F, "BytesText::unescape", "BytesText::unescape_with"):
            if not b.loc(b.j["span"]).startswith("src/de/"):
                continue
            d, r = callee_of(t)
            fn = sym.short(strip_generics(b.path))
            n += 1
            if name_is(d, "BytesText::unescape"):
                ctx.ob("R6", "%s:unescape" % fn, False, "a Text piece is unescaped with the predefined entities only; the other pieces of the same text use the configured resolver", loc=b.loc(t["s"]), config=cfg)
                continue
            # the closure handed over must consult the resolver
            cl = [c for c in F.bodies if strip_generics(c.path).startswith(strip_generics(b.path) + "::{closure")]
            res = any(name_is(callee_of(t2)[0] or "", "EntityResolver::resolve") or name_is(callee_of(t2)[1] or "", "EntityResolver::resolve") for c in cl for _, t2 in c.calls())
            ctx.ob("R6", "%s:unescape_with" % fn, res, "the piece is unescaped through self.entity_resolver", loc=b.loc(t["s"]), config=cfg)
        ctx.floor("R6", "Text-piece conversions in the deserializer", n, 2, config=cfg)


def r7_skip_without_buffer(ctx):
    """Without overlapped lists an ignored element is skipped by Deserializer::read_to_end(name) directly on the
    reader: the event already taken decides what is left to skip.  Start(e): skip e's content, then the rest up to
    name's end; End with the same name: nothing left; anything else: skip up to name's end."""
    for cfg, F in ctx.facts.items():
        if "overlapped-lists" in F.features or "serialize" not in F.features:
            ctx.ob("R7", "not-compiled[%s]" % cfg, True, "this read_to_end exists only without overlapped-lists", config=cfg)
            continue
        b = ctx.body(F, "de::Deserializer::read_to_end", "R7")
        if b is None:
            continue
        rows = {}
        for p in ctx.paths(b):
            if ends(p) != "ret" or is_error_exit(p):
                continue
            nx = decision_on(p, c07.is_next_discr)
            var = c07.devar(F, nx) if isinstance(nx, int) else "other"
            same = None
            for e in p:
                if e[0] == "switch" and e[2][0] == "call" and name_is(e[2][2], "eq", "ne"):
                    same = name_is(e[2][2], "eq") == (e[3] != 0)
            skips = []
            for c in calls(p):
                if name_is(c[2], "read_to_end") and not isinstance(c[1], tuple) and "XmlReader" in c[2]:
                    a = strip_wrappers(c[3][1])
                    skips.append("name" if a[0] == "arg" and a[2] == "name" else "inner" if has_subterm(a, lambda s2: call_is(s2, "name")) else "?")
            rows.setdefault((var, same), set()).add(tuple(skips))
        want = {("Start", None): {("inner", "name")}, ("End", True): {()}, ("End", False): {("name",)}}
        for k, w in want.items():
            ctx.ob("R7", "read_to_end[no buffer]:row%s" % list(k), rows.get(k) == w, "after taking %s (same name: %s) the reader must skip %s; extracted %s" % (k[0], k[1], sorted(w), sorted(rows.get(k, []))), config=cfg)
        rest = {k: v for k, v in rows.items() if k not in want}
        ctx.ob("R7", "read_to_end[no buffer]:others", bool(rest) and all(v == {("name",)} for v in rest.values()), "any other event: skip up to the end of `name`: %s" % {str(k): sorted(v) for k, v in rest.items()}, config=cfg)


def r8_whitespace_notion(ctx):
    """whitespace that may be added between elements or trimmed from text is XML whitespace, decided by one predicate"""
    for cfg, F in ctx.facts.items():
        one_whitespace_notion(ctx, "R8", F, cfg)


def r9_references(ctx):
    """Text written with character or entity references must deserialize like the literal text: the unescaping scan of
    C10 (every '&' up to its ';' is resolved, everything else is copied, numeric references give exactly their
    character) is re-evaluated here."""
    import c10
    n0 = len(ctx.obs)
    c10.r4_pairing(ctx)
    c10.r5_charref(ctx)
    c10.r6_unescape_copies(ctx)
    for o in ctx.obs[n0:]:
        o["site"] = "unescape:" + o["rule"] + ":" + o["site"]
        o["rule"] = "R9"


def r10_cdata_terminators(ctx):
    """text replaced by an equivalent CDATA section must read the same from any source: the CDATA / comment terminator
    rows of the chunked scanner (C01 R3) are re-evaluated here"""
    import c01
    n0 = len(ctx.obs)
    c01.r3_scanners(ctx)
    for o in ctx.obs[n0:]:
        o["site"] = "scanner:" + o["site"]
        o["rule"] = "R10"

def r11_attribute_spacing(ctx):
    """"Spacing inside tags" must not matter: the attribute tokeniser's byte predicates know all of XML whitespace
    (C11 R8 re-evaluated; a key followed by a tab or a line break before `=` is the same key)"""
    import c11
    n0 = len(ctx.obs)
    c11.r8_byte_predicates(ctx)
    for o in ctx.obs[n0:]:
        o["site"] = "attributes:" + o["site"]
        o["rule"] = "R11"


RULES = [("R1", r1_trim_table), ("R2", r2_merge), ("R3", r3_expand), ("R4", r4_unknown_skipped), ("R5", r5_trimmer_in_sync), ("R6", r6_pieces_decoded_alike), ("R7", r7_skip_without_buffer), ("R8", r8_whitespace_notion), ("R9", r9_references), ("R10", r10_cdata_terminators), ("R11", r11_attribute_spacing)]
