"""C01 — Reader events match the document's lexical structure."""
from engine import *
from facts import strip_generics, callee_of
import sym
import scan
import c12

CONFIGS_QUICK = ["F_all", "F_def", "F_noenc"]  # every configuration whose cfg-gated code the property depends on
CONFIGS_THOROUGH = ["F_all", "F_def", "F_noenc"]
TECHNIQUE = 'static analysis: decision-table extraction by symbolic path walking over rustc MIR (dispatch, scanner automata), constant relations between detection and stripping, value sets of byte predicates, linear-form index agreement of the comment-check scan window, per-exit terminator rows of BangType::parse, crate-wide one-whitespace-notion who-may-call rule'
EXPLANATION = (
    "Markup dispatch table after '<' extracted from both instantiations of read_until_close! (byte peeked -> source "
    "helper and scanner start state -> emitter on Ok -> error position on Err, end of input -> UnclosedTag) and compared "
    "with the reference; construct kind -> EOF error tables (Parser::eof_error impls, BangType::to_err, BangType::new "
    "byte table); scanner automata as transition tables (ElementParser::feed quote automaton with its memchr needles, "
    "PiParser::feed carried '?' flag, BangType::parse terminator literals / DOCTYPE balance / comment minimum length); "
    "delimiter detection agrees with delimiter stripping in emit_bang / emit_question_mark / emit_start (prefix literal "
    "length = cut, suffix literal length = cut); XML whitespace class and its use for the name boundary."
)
ASSUMPTIONS = ["memchr iterators yield exactly the positions of their needles in increasing order"]


def unawait(t):
    return t[1] if t[0] == "await" else t


def src_call(t, *names):
    t = unawait(t)
    return t[0] == "call" and name_is(t[2], *names)


def r1_dispatch(ctx):
    for cfg, F in ctx.facts.items():
        bodies = c12.macro_bodies(F, "read_until_close")
        ctx.floor("R1", "instantiations of read_until_close!", len(bodies), 2 if "async-tokio" in F.features else 1, config=cfg)
        for b in bodies:
            nm = sym.short(strip_generics(b.path).replace("::{closure#0}", ""))
            rows = {}
            for p in ctx.paths(b):
                if ends(p) != "ret":
                    continue
                okv = decision_on(p, lambda t: t[0] == "discr" and src_call(t[1], "peek_one"))
                some = decision_on(p, lambda t: t[0] == "discr" and t[1][0] == "pl" and src_call(t[1][1], "peek_one") and not any(isinstance(e, tuple) and e[0] == "d" and e[2] == "Some" for e in t[1][2]))
                byte = decision_on(p, lambda t: t[0] == "pl" and src_call(t[1], "peek_one") and any(isinstance(e, tuple) and e[0] == "d" and e[2] == "Some" for e in t[2]))
                if okv != 0:
                    key = "io-error"
                elif some == 0:
                    key = "eof"
                else:
                    key = {33: "!", 47: "/", 63: "?"}.get(byte, "other" if byte == "else" else str(byte))
                srcs = [c for c in calls(p) if name_is(c[2], "read_bang_element", "read_with")]
                emit = [sym.short(c[2]).split("::")[-1] for c in calls(p) if isinstance(c[2], str) and c[2].split("::")[-1].startswith("emit_")]
                parser = None
                if srcs and name_is(srcs[0][2], "read_with"):
                    a = srcs[0][3][1]
                    parser = "%s::%s%s" % (a[1].split("::")[-1], a[2], "(%s)" % ",".join(sym.show(x) for x in a[3]) if a[3] else "") if a[0] == "agg" else sym.show(a)
                src = (sym.short(srcs[0][2]).split("::")[-1] if srcs else None)
                r = ret_of(p)
                rv = describe_ret(r, 2)[0]
                srcok = None
                if srcs:
                    T = ("call", srcs[0][1], srcs[0][2], srcs[0][3])
                    srcok = decision_on(p, lambda t: t[0] == "discr" and unawait(t[1]) == T)
                errpos = [e for e in p if e[0] == "store" and ends_with_fields(e[2], "state", "last_error_offset")]
                pos_ok = len(errpos) == 1 and errpos[0][3][0] == "bin" and errpos[0][3][1] == "Sub" and ends_with_fields(errpos[0][3][2], "state", "offset") and errpos[0][3][3] == ("c", "u64", 1)
                rows.setdefault(key, []).append((src, parser, srcok, tuple(emit), rv, pos_ok, bool(errpos)))
            ref = {"!": ("read_bang_element", None, "emit_bang"), "/": ("read_with", "ElementParser::Outside", "emit_end"),
                   "?": ("read_with", "PiParser::PiParser(False)", "emit_question_mark"), "other": ("read_with", "ElementParser::Outside", "emit_start")}
            for key, (src, parser, emitter) in ref.items():
                rs = rows.get(key, [])
                okrows = [x for x in rs if x[2] == 0]
                errrows = [x for x in rs if x[2] == 1]
                good = bool(okrows) and all(x[0] == src and x[1] == parser and x[3] == (emitter,) for x in okrows)
                ctx.ob("R1", "%s:dispatch[%s]:ok" % (nm, key), good, "after '<%s' the reader must call %s%s and hand the bytes to %s; extracted %s" % (key if key != "other" else "x", src, "(" + parser + ")" if parser else "", emitter, [(x[0], x[1], x[3]) for x in okrows]), config=cfg)
                good = bool(errrows) and all(x[0] == src and x[3] == () and x[4][:1] == ("Err",) and x[5] for x in errrows)
                ctx.ob("R1", "%s:dispatch[%s]:err" % (nm, key), good, "a failing source call returns its error without emitting, error position = offset at entry - 1 (the '<'); extracted %s" % [(x[3], x[4], x[5]) for x in errrows], config=cfg)
            rs = rows.get("eof", [])
            ctx.ob("R1", "%s:dispatch[eof]" % nm, len(rs) == 1 and rs[0][4][:3] == ("Err", "Syntax", "UnclosedTag") and rs[0][5] and rs[0][0] is None, "input ending right after '<' is SyntaxError::UnclosedTag at the '<': %s" % rs, config=cfg)
            rs = rows.get("io-error", [])
            ctx.ob("R1", "%s:dispatch[io-error]" % nm, len(rs) == 1 and rs[0][4][:2] == ("Err", "Io") and not rs[0][3], "an I/O error from peek_one is returned as Error::Io", config=cfg)
            ctx.ob("R1", "%s:dispatch:total" % nm, set(rows) == {"!", "/", "?", "other", "eof", "io-error"}, "the table is total over (io error, eof, '!', '/', '?', any other byte): %s" % sorted(rows), config=cfg)
            # state goes back to InsideText before anything else
            for p in ctx.paths(b)[:1]:
                first = [e for e in p if e[0] in ("store", "call")][:1]
                ctx.ob("R1", "%s:state" % nm, bool(first) and first[0][0] == "store" and ends_with_fields(first[0][2], "state", "state") and first[0][3][0] == "agg" and first[0][3][2] == "InsideText", "read_until_close first moves the parser to InsideText", config=cfg)


def r2_eof_errors(ctx):
    for cfg, F in ctx.facts.items():
        want = {"ElementParser": "UnclosedTag", "PiParser": "UnclosedPIOrXmlDecl"}
        for ty, err in want.items():
            bs = F.bodies_with("parser::", ty, "Parser", end="eof_error")
            got = None
            for b in bs:
                for p in ctx.paths(b):
                    r = ret_of(p)
                    if r is not None and r[0] == "agg":
                        got = r[2]
            ctx.ob("R2", "%s::eof_error" % ty, got == err, "input ending inside this construct is SyntaxError::%s (is %s)" % (err, got), config=cfg)
        b = ctx.body(F, "reader::BangType::to_err", "R2")
        if b is not None:
            vs = F.variants("reader::BangType")
            tab = {}
            for p in ctx.paths(b):
                d = decision_on(p, lambda t: t[0] == "discr")
                r = ret_of(p)
                if isinstance(d, int) and r is not None and r[0] == "agg":
                    tab[vs[d]] = r[2]
            ctx.ob("R2", "BangType::to_err", tab == {"CData": "UnclosedCData", "Comment": "UnclosedComment", "DocType": "UnclosedDoctype"}, "kind -> error table: %s" % tab, config=cfg)
        b = ctx.body(F, "reader::BangType::new", "R2")
        if b is not None:
            tab = {}
            for p in ctx.paths(b):
                some = decision_on(p, lambda t: t[0] == "discr")
                byte = decision_on(p, lambda t: t[0] == "pl" and root_of(t)[0] == "arg")
                r = ret_of(p)
                rv, inner = describe_ret(r, 1)
                key = "none" if some != 1 else byte
                val = rv[1] if rv[0] == "Ok" else "Err:" + rv[1]
                if rv[0] == "Ok" and rv[1] == "DocType":
                    val += "(%s)" % sym.show(r[3][0][3][0])
                tab[key] = val
            want = {91: "CData", 45: "Comment", 68: "DocType(0)", 100: "DocType(0)", "else": "Err:InvalidBangMarkup", "none": "Err:InvalidBangMarkup"}
            ctx.ob("R2", "BangType::new", tab == want, "byte after '<!' -> kind: %s" % tab, config=cfg)
        # the helpers use these tables on their EOF exits
        for b in F.bodies_with("XmlSource", end="read_with") + F.bodies_matching(r"TokioAdapter::read_with::\{closure#0\}$"):
            eofs = 0
            for p in ctx.paths(b):
                r = ret_of(p)
                if r is not None and describe_ret(r, 1)[0][:2] == ("Err", "Syntax"):
                    eofs += 1
                    ctx.ob("R2", "%s:eof" % sym.short(strip_generics(b.path).replace("::{closure#0}", "")), has_subterm(r, lambda s: call_is(s, "eof_error")), "EOF inside the construct reports the parser's own eof_error()", config=cfg)
            ctx.ob("R2", "%s:eof-exit" % sym.short(strip_generics(b.path).replace("::{closure#0}", "")), eofs >= 1, "read_with has an EOF exit", config=cfg)
        for b in F.bodies_with("XmlSource", end="read_bang_element") + F.bodies_matching(r"TokioAdapter::read_bang_element::\{closure#0\}$"):
            eofs = 0
            for p in ctx.paths(b, max_paths=60000):
                r = ret_of(p)
                if r is not None and has_subterm(r, lambda s: call_is(s, "to_err")):
                    eofs += 1
            ctx.ob("R2", "%s:eof-exit" % sym.short(strip_generics(b.path).replace("::{closure#0}", "")), eofs >= 1, "EOF inside a bang construct reports BangType::to_err()", config=cfg)


def r3_scanners(ctx):
    for cfg, F in ctx.facts.items():
        # ElementParser::feed
        bs = F.bodies_with("parser::element::ElementParser", "Parser", end="feed")
        ctx.ob("R3", "ElementParser::feed:anchor", len(bs) == 1, "found", config=cfg)
        for b in bs:
            vs = F.variants("parser::element::ElementParser")
            needles = None
            trans = {}
            for p in ctx.paths(b):
                for c in calls(p):
                    if name_is(c[2], "memchr3_iter"):
                        needles = {c10int(c[3][0]), c10int(c[3][1]), c10int(c[3][2])}
                st = decision_on(p, lambda t: t[0] == "discr" and root_of(t[1])[0] == "arg" and root_of(t[1])[2] == "self")
                by = decision_on(p, lambda t: t[0] == "pl" and root_of(t)[0] == "arg" and root_of(t)[2] == "bytes")
                if not isinstance(st, int):
                    continue
                stores = [e for e in p if e[0] == "store" and root_of(e[2])[0] == "arg" and root_of(e[2])[2] == "self"]
                if ends(p) == "ret":
                    r = ret_of(p)
                    out = "return-index" if r[0] == "agg" and r[2] == "Some" and has_subterm(r, lambda s: call_is(s, "next")) else "return?"
                elif stores:
                    out = "->" + stores[-1][3][2]
                else:
                    out = "keep"
                listed = [e[4] for e in p if e[0] == "switch" and e[2][0] == "pl" and root_of(e[2])[0] == "arg" and root_of(e[2])[2] == "bytes"]
                if by == "else" and listed:
                    for v in (62, 39, 34):
                        if v not in listed[0]:
                            trans[(vs[st], v)] = out
                else:
                    trans[(vs[st], by)] = out
            want = {("Outside", 62): "return-index", ("Outside", 39): "->SingleQ", ("Outside", 34): "->DoubleQ",
                    ("SingleQ", 39): "->Outside", ("SingleQ", 62): "keep", ("SingleQ", 34): "keep",
                    ("DoubleQ", 34): "->Outside", ("DoubleQ", 62): "keep", ("DoubleQ", 39): "keep"}
            got = {k: v for k, v in trans.items() if k[1] in (62, 39, 34)}
            ctx.ob("R3", "ElementParser::feed:needles", needles == {62, 39, 34}, "visited bytes are '>', \"'\", '\"': %s" % needles, config=cfg)
            ctx.ob("R3", "ElementParser::feed:automaton", got == want, "quote automaton (a '>' ends the tag only outside quotes): %s" % {("%s,%s" % k): v for k, v in got.items() if want.get(k) != v}, config=cfg)
        # PiParser::feed
        bs = F.bodies_with("parser::pi::PiParser", "Parser", end="feed")
        ctx.ob("R3", "PiParser::feed:anchor", len(bs) == 1, "found", config=cfg)
        for b in bs:
            rows = []
            flag_assigned_on_none = True
            needle = None
            for p in ctx.paths(b):
                for c in calls(p):
                    if name_is(c[2], "memchr_iter"):
                        needle = c10int(c[3][0])
                if ends(p) != "ret":
                    continue
                r = ret_of(p)
                if r[0] == "agg" and r[2] == "None":
                    st = [e for e in p if e[0] == "store" and root_of(e[2])[0] == "arg" and root_of(e[2])[2] == "self"]
                    ok = len(st) == 1 and ((has_subterm(st[0][3], lambda s: call_is(s, "last")) and has_subterm(st[0][3], lambda s: s == ("c", "u8", 63)))
                                           or (call_is(st[0][3], "ends_with") and bytes_literal(st[0][3][3][1]) == b"?"))
                    flag_assigned_on_none = flag_assigned_on_none and ok
                else:
                    zero = decision_on(p, lambda t: t[0] == "pl" and t[2] and isinstance(t[2][-1], tuple) and t[2][-1][0] == "d" or (t[0] == "bin" and t[1] == "Eq" and t[3] == ("c", "usize", 0)))
                    flag = decision_on(p, lambda t: is_self_field(t, "0"))
                    prevq = [e for e in p if e[0] == "switch" and e[2][0] == "bin" and e[2][1] == "Eq" and e[2][3] == ("c", "u8", 63)]
                    gt0 = [e for e in p if e[0] == "switch" and e[2][0] == "bin" and e[2][1] == "Gt"]
                    rows.append((flag, bool(prevq) and prevq[0][3] != 0, bool(gt0)))
            ctx.ob("R3", "PiParser::feed:needle", needle == 62, "only '>' positions are inspected", config=cfg)
            ctx.ob("R3", "PiParser::feed:carry", flag_assigned_on_none, "every None exit records whether the piece ended with '?' (the flag that lets a '>' at index 0 end the PI)", config=cfg)
            byflag = [x for x in rows if x[0] not in (None, 0)]
            byprev = [x for x in rows if x[1]]
            ctx.ob("R3", "PiParser::feed:ends", len(byflag) >= 1 and len(byprev) >= 1 and all(x[0] not in (None, 0) or x[1] for x in rows),
                   "a '>' ends the PI only at index 0 with the carried flag set, or at i>0 when byte i-1 is '?': %s" % rows, config=cfg)
        # BangType::parse
        b = ctx.body(F, "reader::BangType::parse", "R3")
        if b is not None:
            vs = F.variants("reader::BangType")
            info = {v: {"lits": set(), "needles": None, "min": None, "cuts": set()} for v in vs}
            bal = {"inc": False, "dec": False, "ret_on_zero": False}
            rows_by_variant = {}
            for p in ctx.paths(b, max_paths=60000):
                k = decision_on(p, lambda t: t[0] == "discr" and root_of(t[1])[0] == "arg" and root_of(t[1])[2] == "self")
                if not isinstance(k, int):
                    continue
                v = vs[k]
                for c in calls(p):
                    if name_is(c[2], "memchr_iter", "memchr2_iter"):
                        info[v]["needles"] = tuple(sorted(c10int(a) for a in c[3][:-1]))
                    if name_is(c[2], "ends_with"):
                        lit = bytes_literal(c[3][1])
                        who = "chunk" if has_subterm(c[3][0], lambda s: s[0] == "arg" and s[2] == "chunk") else "buf"
                        info[v]["lits"].add((who, lit))
                is_some = ends(p) == "ret" and ret_of(p)[0] == "agg" and ret_of(p)[2] == "Some"
                gts = [e for e in p if e[0] == "switch" and e[2][0] == "bin" and e[2][1] == "Gt" and e[2][3][0] == "c" and e[3] != 0]
                if is_some:
                    # the minimum over all exits: an exit without the length test has minimum 0
                    m = max([e[2][3][2] for e in gts], default=0)
                    info[v]["min"] = m if info[v]["min"] is None else min(info[v]["min"], m)
                for e in p:
                    if e[0] == "switch" and e[2][0] == "bin" and e[2][1] == "Eq" and e[2][2][0] == "pl" and e[2][3][0] == "c" and e[2][3][1] == "usize":
                        info[v]["cuts"].add(e[2][3][2])
                if is_some and v in ("Comment", "CData"):
                    # what this exit established about the bytes before the '>' it reports
                    row = {"i": None, "buf": None, "chunk": None, "c0": None}
                    for e in p:
                        if e[0] != "switch" or e[3] in (0, None):
                            continue
                        t = e[2]
                        if call_is(t, "ends_with"):
                            who = "chunk" if has_subterm(t[3][0], lambda s2: s2[0] == "arg" and s2[2] == "chunk") else "buf"
                            row[who] = bytes_literal(t[3][1])
                        elif t[0] == "bin" and t[1] == "Eq" and t[3][0] == "c" and t[3][1] == "usize":
                            row["i"] = t[3][2]
                        elif t[0] == "bin" and t[1] == "Eq" and t[3][0] == "c" and t[3][1] == "u8" and has_subterm(t[2], lambda s2: s2[0] == "arg" and s2[2] == "chunk"):
                            row["c0"] = t[3][2]
                    rows_by_variant.setdefault(v, set()).add((row["i"], row["buf"], row["chunk"], row["c0"]))
                if v == "DocType":
                    for e in p:
                        if e[0] == "store" and has_subterm(e[3], lambda s: s[0] == "bin" and s[1] == "Add" and s[3] == ("c", "i32", 1)):
                            bal["inc"] = True
                        if e[0] == "store" and has_subterm(e[3], lambda s: s[0] == "bin" and s[1] == "Sub" and s[3] == ("c", "i32", 1)):
                            bal["dec"] = True
                    if ends(p) == "ret" and ret_of(p)[0] == "agg" and ret_of(p)[2] == "Some":
                        z = [e for e in p if e[0] == "switch" and e[2][0] == "bin" and e[2][1] == "Eq" and e[2][3] == ("c", "i32", 0)]
                        bal["ret_on_zero"] = bool(z) and z[-1][3] != 0
            ctx.ob("R3", "BangType::parse:Comment", info["Comment"]["needles"] == (62,) and {("chunk", b"--"), ("buf", b"-"), ("buf", b"--")} <= info["Comment"]["lits"] and info["Comment"]["cuts"] >= {0, 1},
                   "a comment ends at '>' preceded by '--' in all three placements of the chunk cut: %s" % info["Comment"], config=cfg)
            for v, t1, t2, b0 in (("Comment", b"-", b"--", 45), ("CData", b"]", b"]]", 93)):
                want = {(None, None, t2, None), (1, t1, None, b0), (0, t2, None, None)}
                got = rows_by_variant.get(v, set())
                ctx.ob("R3", "BangType::parse:%s:exits" % v, got == want,
                       "every exit reporting the end established the whole terminator: in the chunk, or one byte in the buffer + chunk[0] at i == 1, or both in the buffer at i == 0; rows (i, buf ends, chunk[..i] ends, chunk[0]): extra %s missing %s" % (sorted(got - want, key=str), sorted(want - got, key=str)), config=cfg)
            ctx.ob("R3", "BangType::parse:Comment:min-length", info["Comment"]["min"] == 4, "EVERY exit that reports a finished comment must have tested buffered+index > 4 (`!--` + `--` do not overlap), which also keeps emit_bang's buf[3..len-2] in range; weakest exit tests > %s" % info["Comment"]["min"], config=cfg)
            ctx.ob("R3", "BangType::parse:CData", info["CData"]["needles"] == (62,) and {("chunk", b"]]"), ("buf", b"]"), ("buf", b"]]")} <= info["CData"]["lits"] and info["CData"]["cuts"] >= {0, 1},
                   "CDATA ends at '>' preceded by ']]' in all three placements of the chunk cut: %s" % info["CData"], config=cfg)
            ctx.ob("R3", "BangType::parse:DocType", info["DocType"]["needles"] == (60, 62) and bal["inc"] and bal["dec"] and bal["ret_on_zero"], "DOCTYPE counts '<' (+1) and '>' (-1) and ends at a '>' with balance 0: needles %s %s" % (info["DocType"]["needles"], bal), config=cfg)


def c10int(t):
    t = strip_wrappers(t)
    return t[2] if t[0] == "c" and isinstance(t[2], int) and not isinstance(t[2], bool) else None


def range_of(t):
    """(lo, hi) description of the Range/RangeFrom/RangeTo argument of an index call"""
    for s in sym.subterms(t):
        if call_is(s, "index") and s[3][1][0] == "agg":
            return s[3][1]
    return None


def r4_delimiters(ctx):
    for cfg, F in ctx.facts.items():
        b = ctx.body(F, "reader::state::ReaderState::emit_bang", "R4")
        if b is not None:
            vs = F.variants("reader::BangType")
            seen = set()
            for p in ctx.paths(b):
                r = ret_of(p)
                if r is None or describe_ret(r, 0)[0][:1] != ("Ok",):
                    continue
                kind = describe_ret(r, 1)[0][1]
                k = decision_on(p, lambda t: t[0] == "discr" and t[1][0] == "arg" and t[1][2] == "bang_type")
                pre = [bytes_literal(c[3][1]) for c in calls(p) if name_is(c[2], "starts_with")]
                suf = [bytes_literal(c[3][1]) for c in calls(p) if name_is(c[2], "ends_with")]
                rng = range_of(r)
                seen.add(kind)
                if kind in ("Comment", "CData"):
                    plen = {"Comment": b"!--", "CData": b"![CDATA["}[kind]
                    slen = {"Comment": b"--", "CData": b"]]"}[kind]
                    wr = [x for x in sym.subterms(r) if call_is(x, "BytesText::wrap", "BytesCData::wrap")]
                    nf = slice_norm(wr[0][3][0]) if wr else None
                    ok = nf is not None and nf[0][0] == "arg" and nf[0][2] == "buf" and nf[1] == len(plen) and nf[2] == len(slen)
                    ok = ok and (set(pre) == {plen} or ("prefix", plen, 0) in nf[3]) and (not suf or set(suf) == {slen} or ("suffix", slen, 0) in nf[3])
                    ctx.ob("R4", "emit_bang:%s" % kind, ok and vs[k] == kind, "payload is buf[%d..len-%d] after testing the prefix %r (the scanner required the suffix %r): prefix %s cuts %s" % (len(plen), len(slen), plen, slen, pre, None if nf is None else (nf[1], nf[2])), config=cfg)
                elif kind == "DocType":
                    ok = rng is not None and rng[2] == "RangeFrom" and rng[3][0][0] == "bin" and rng[3][0][1] == "Add" and rng[3][0][2] == ("c", "usize", 8)
                    ctx.ob("R4", "emit_bang:DocType", ok and vs[k] == "DocType", "payload starts after `!DOCTYPE` (8) plus the following whitespace: %s" % (sym.show(rng) if rng else None), config=cfg)
            ctx.ob("R4", "emit_bang:kinds", seen == {"Comment", "CData", "DocType"}, "emit_bang produces exactly Comment, CData, DocType: %s" % seen, config=cfg)
            # the case-insensitive prefix test: a closure of emit_bang or a private function it calls
            testers = {}
            for p in ctx.paths(b):
                for c in calls(p):
                    if isinstance(c[2], str) and not isinstance(c[1], tuple) and "quick_xml::" in c[2] and c[2] not in testers:
                        tb = F.closure(c[2]) if "{closure" in c[2] else F.body(strip_generics(c[2]).split("quick_xml::", 1)[-1])
                        testers[c[2]] = tb is not None and any(name_is(callee_of(t)[0] or "", "eq_ignore_ascii_case") for _, t in tb.calls())
            ok = any(testers.values())
            lit = [bytes_literal(a) for p in ctx.paths(b) for c in calls(p) if isinstance(c[2], str) and testers.get(c[2]) and len(c[3]) > 1 for a in sym.subterms(c[3][-1]) if bytes_literal(a)]
            ctx.ob("R4", "emit_bang:DOCTYPE-keyword", ok and set(lit) == {b"!DOCTYPE"}, "the DOCTYPE keyword is matched ignoring ASCII case against `!DOCTYPE` (8 bytes = the cut): %s" % set(lit), config=cfg)
        q = ctx.body(F, "reader::state::ReaderState::emit_question_mark", "R4")
        if q is not None:
            kinds = set()
            for p in ctx.paths(q):
                r = ret_of(p)
                if r is None or describe_ret(r, 0)[0][:1] != ("Ok",):
                    continue
                kind = describe_ret(r, 1)[0][1]
                kinds.add(kind)
                wr = [s for s in sym.subterms(r) if call_is(s, "BytesStart::wrap", "BytesPI::wrap")]
                nf = slice_norm(wr[0][3][0]) if wr else None
                ok = nf is not None and nf[0][0] == "arg" and nf[0][2] == "buf" and nf[1] == 1 and nf[2] == 1
                lastq = any(e[0] == "switch" and e[2][0] == "bin" and e[2][1] == "Eq" and e[2][3] == ("c", "u8", 63) and e[3] != 0 for e in p) or (nf is not None and ("suffix", b"?", 0) in nf[3])
                ctx.ob("R4", "emit_question_mark:%s:cut" % kind, ok and lastq, "content is buf[1..len-1] and the last byte was tested to be '?': %s" % (None if nf is None else str((sym.show(nf[0]), nf[1], nf[2], sorted(nf[3]))),), config=cfg)
                xml = [c for c in calls(p) if name_is(c[2], "starts_with") and bytes_literal(c[3][1]) == b"xml"]
                isx = decision_on(p, lambda t: call_is(t, "starts_with"))
                if kind == "Decl":
                    wrap = [s for s in sym.subterms(r) if call_is(s, "BytesStart::wrap")]
                    ws = any(c for c in calls(p) if name_is(c[2], "is_whitespace")) or any(e[0] == "switch" and e[2][0] == "bin" and e[2][1] == "Eq" and e[2][3] == ("c", "usize", 3) and e[3] != 0 for e in p) \
                        or any(e[0] == "switch" and e[2][0] == "discr" and call_is(e[2][1], "get") and strip_wrappers(e[2][1][3][1]) == ("c", "usize", 3) and e[3] == 0 for e in p)  # `content.get(3)` is None: nothing follows `xml`
                    ctx.ob("R4", "emit_question_mark:Decl", bool(xml) and isx not in (0, None) and bool(wrap) and wrap[0][3][1] == ("c", "usize", 3) and ws, "Decl iff content starts with `xml` followed by end or XML whitespace; name length 3", config=cfg)
                else:
                    wrap = [s for s in sym.subterms(r) if call_is(s, "BytesPI::wrap")]
                    ctx.ob("R4", "emit_question_mark:PI", bool(wrap) and call_is(wrap[0][3][1], "name_len"), "PI target length is name_len(content)", config=cfg)
            ctx.ob("R4", "emit_question_mark:kinds", kinds == {"Decl", "PI"}, "produces Decl and PI: %s" % kinds, config=cfg)
        s = ctx.body(F, "reader::state::ReaderState::emit_start", "R4")
        if s is not None:
            for p in ctx.paths(s):
                if ends(p) != "ret":
                    continue
                sfx = [c for c in calls(p) if name_is(c[2], "strip_suffix")]
                d = decision_on(p, lambda t: t[0] == "discr" and call_is(t[1], "strip_suffix"))
                r = ret_of(p)
                kind = describe_ret(r, 0)[0][0]
                wrap = [c for c in calls(p) if name_is(c[2], "BytesStart::wrap")]
                ok = len(sfx) == 1 and bytes_literal(sfx[0][3][1]) == b"/" and len(wrap) == 1 and call_is(wrap[0][3][1], "name_len")
                if d == 1:
                    ok = ok and has_subterm(wrap[0][3][0], lambda x: call_is(x, "strip_suffix"))
                else:
                    ok = ok and strip_wrappers(wrap[0][3][0])[0] == "arg" and kind == "Start"
                ctx.ob("R4", "emit_start[self-closed=%s]" % (d == 1), ok, "self-closed iff the content ends with '/', which is cut; the name is name_len(content)", config=cfg)


def r5_whitespace(ctx):
    for cfg, F in ctx.facts.items():
        b = ctx.body(F, "utils::is_whitespace", "R5")
        if b is not None:
            vs = valueset(b)
            ctx.ob("R5", "is_whitespace", vs == {9, 10, 13, 32}, "XML whitespace = {tab, LF, CR, space}: %s" % sorted(vs), config=cfg)
        one_whitespace_notion(ctx, "R5", F, cfg)
        nl = ctx.body(F, "utils::name_len", "R5")
        if nl is not None:
            cs = [callee_of(t)[0] for _, t in nl.calls()]
            ctx.ob("R5", "name_len:predicate", [name_is(c or "", "is_whitespace") for c in cs] == [True], "the name ends at the first is_whitespace byte and nothing else is consulted: %s" % cs, config=cfg)
            stop = False
            for p in ctx.paths(nl):
                d = decision_on(p, lambda t: call_is(t, "is_whitespace"))
                if d not in (None, 0) and ends(p) == "ret":
                    stop = True
            ctx.ob("R5", "name_len:stops", stop, "scanning stops (returns) at the first whitespace byte", config=cfg)


def r6_accessors(ctx):
    """Payload accessors expose exactly the name / the rest: slices with the documented bounds."""
    for cfg, F in ctx.facts.items():
        def ret_index(path, want_kind, want_field):
            b = ctx.body(F, path, "R6")
            if b is None:
                return
            ok = False
            shown = None
            for p in ctx.paths(b):
                r = ret_of(p)
                if r is None:
                    continue
                for s in sym.subterms(r):
                    if call_is(s, "index") and s[3][1][0] == "agg":
                        shown = sym.show(s, 3)
                        rng = s[3][1]
                        base_ok = has_subterm(s[3][0], lambda x: x[0] == "pl" and ends_with_fields(x, "buf"))
                        ok = rng[2] == want_kind and is_self_field(rng[3][0], want_field) and base_ok
            ctx.ob("R6", path.split("events::")[-1], ok, "must return buf[%s] of the event's own buffer: %s" % ("..name_len" if want_kind == "RangeTo" else "name_len..", shown), config=cfg)
        ret_index("events::BytesStart::name", "RangeTo", "name_len")
        ret_index("events::BytesStart::attributes_raw", "RangeFrom", "name_len")
        for fn, html in (("attributes", False), ("html_attributes", True)):
            b = ctx.body(F, "events::BytesStart::" + fn, "R6")
            if b is not None:
                ok = False
                for p in ctx.paths(b):
                    for c in calls(p):
                        if name_is(c[2], "Attributes::wrap"):
                            ok = has_subterm(c[3][0], lambda x: x[0] == "pl" and ends_with_fields(x, "buf")) and is_self_field(c[3][1], "name_len") and c[3][2] == ("c", "bool", html)
                ctx.ob("R6", "BytesStart::" + fn, ok, "attribute iteration starts right after the name (pos = name_len) in %s mode" % ("HTML" if html else "XML"), config=cfg)
        b = ctx.body(F, "events::BytesEnd::name", "R6")
        if b is not None:
            ok = any(ret_of(p) is not None and ret_of(p)[0] == "agg" and ret_of(p)[1].endswith("QName") and has_subterm(ret_of(p), lambda x: x[0] == "pl" and ends_with_fields(x, "name")) and not has_subterm(ret_of(p), lambda x: call_is(x, "index")) for p in ctx.paths(b))
            ctx.ob("R6", "BytesEnd::name", ok, "the whole stored name", config=cfg)
        for fn, inner in (("target", "name"), ("content", "attributes_raw")):
            b = ctx.body(F, "events::BytesPI::" + fn, "R6")
            if b is not None:
                cs = [sym.short(c[2]).split("::")[-1] for p in ctx.paths(b) for c in calls(p)]
                ctx.ob("R6", "BytesPI::" + fn, cs == [inner], "PI %s = BytesStart::%s of the wrapped content: %s" % (fn, inner, cs), config=cfg)
        # QName parts: prefix = [..i], local = [i+1..] with i = index of the first ':'
        idx = ctx.body(F, "name::QName::index", "R6")
        if idx is not None:
            ok = any(name_is(c[2], "memchr") and c01int_(c[3][0]) == 58 for p in ctx.paths(idx) for c in calls(p))
            ctx.ob("R6", "QName::index", ok, "the prefix separator is the first ':'", config=cfg)
        d = ctx.body(F, "name::QName::decompose", "R6")
        if d is not None:
            for p in ctx.paths(d):
                r = ret_of(p)
                if r is None or r[0] != "tuple":
                    continue
                found = decision_on(p, lambda t: t[0] == "discr" and call_is(t[1], "QName::index"))
                if found == 1:
                    loc = [s for s in sym.subterms(r[1][0]) if call_is(s, "index")]
                    pre = [s for s in sym.subterms(r[1][1]) if call_is(s, "index")]
                    ok = bool(loc) and bool(pre) and loc[0][3][1][2] == "RangeFrom" and loc[0][3][1][3][0][0] == "bin" and loc[0][3][1][3][0][3] == ("c", "usize", 1) and pre[0][3][1][2] == "RangeTo" and pre[0][3][1][3][0][0] == "pl"
                    ctx.ob("R6", "QName::decompose[prefixed]", ok, "local name = [i+1..], prefix = [..i]", config=cfg)
                else:
                    ok = r[1][1][0] == "agg" and r[1][1][2] == "None" and not has_subterm(r[1][0], lambda x: call_is(x, "index"))
                    ctx.ob("R6", "QName::decompose[plain]", ok, "no ':' -> the whole name is local, no prefix", config=cfg)


def c01int_(t):
    return c10int(t)


def r7_sources(ctx):
    """The events are cut out of the input by the XmlSource helpers: their contracts (C02 R2) are a
    necessary condition of C01 for every source kind."""
    import consume
    consume.check(ctx, "R7")


def r8_comment_scan(ctx):
    """check_comments must reject exactly the comments that contain `--`: the scan looks at the byte after each '-'"""
    for cfg, F in ctx.facts.items():
        scan.comment_scan(ctx, "R8", F, cfg)


def r9_options_restored(ctx):
    """Events read after a skip must be lexed under the options the user set: read_to_end's save/restore of
    trim_text_start on every exit (C12 R1) is re-evaluated here."""
    import c12
    n0 = len(ctx.obs)
    c12.r1_restore(ctx)
    for o in ctx.obs[n0:]:
        o["site"] = "read_to_end:" + o["site"]
        o["rule"] = "R9"

def r10_no_invented_text(ctx):
    """the reader yields exactly the constructs of the input: a text that trimming left empty is not an event.  C16 R3's
    guard rule is re-evaluated for the end-of-input arm (the markup arm's missing guard is the known finding recorded
    under C16; it is not repeated here)"""
    import c16
    n0 = len(ctx.obs)
    c16.r3_empty_dropped(ctx)
    ctx.obs[n0:] = [o for o in ctx.obs[n0:] if "UpToEof" in o["site"]]
    for o in ctx.obs[n0:]:
        o["rule"] = "R10"
    ctx.floor("R10", "end-of-input text exits", len(ctx.obs) - n0, 1)


RULES = [("R1", r1_dispatch), ("R2", r2_eof_errors), ("R3", r3_scanners), ("R4", r4_delimiters), ("R5", r5_whitespace), ("R6", r6_accessors), ("R7", r7_sources), ("R8", r8_comment_scan), ("R9", r9_options_restored), ("R10", r10_no_invented_text)]
