"""C03 — Reading is total: no panic, always terminates, Eof is final."""
from engine import *
from facts import strip_generics, callee_of
import sym
import c12
import panics

CONFIGS_QUICK = ["F_all", "F_def", "F_noenc"]  # every configuration whose cfg-gated code the property depends on
CONFIGS_THOROUGH = ["F_all", "F_def", "F_noenc"]
TECHNIQUE = 'static analysis: typestate/transition-relation extraction from MIR paths, back-edge progress rule, who-may-write rule for offsets, panic-site audit with local discharge arguments and audited exemptions, attribute-automaton termination premises (C11 table re-evaluated), resolver invariants (C05) re-evaluated as exemption premises'
EXPLANATION = (
    "forbid(unsafe_code) at crate level; terminal-state typestate of the event loop (both instantiations of "
    "read_event_impl!): the final classification sends Ok(Eof) and every Err other than IllFormed to state Done, the Done "
    "arm returns Eof without touching the source, the extracted transition relation of all writes to state.state equals "
    "the documented ParseState diagram with no edge leaving Done; progress: every back edge of the loop is preceded by a "
    "write of a different state; who-may-write rule for state.offset (only `+=` of a length) and last_error_offset (only "
    "offset-derived values minus a constant / consumed length); panic-site audit of the reader core: every panic-capable "
    "construct (bounds/overflow asserts, panicking::*, unwrap/expect, range indexing, split_at/split_off) in bodies reachable "
    "from the read entry points and payload accessors is enumerated and must be discharged by a local argument "
    "(index produced by a search over the same slice, dominating length test, debug assertion of an internal invariant, "
    "counter bounded by a slice length) or by an audited single-site exemption."
)
ASSUMPTIONS = ["panics inside dependencies (memchr, encoding_rs, std) are out of scope", "the discharge arguments are necessary shapes, not a range analysis"]


def r1_unsafe(ctx):
    for cfg, F in ctx.facts.items():
        ctx.ob("R1", "crate:unsafe_code", F.j["unsafe_code_level"] == "Forbid", "crate-level lint level of unsafe_code is %s" % F.j["unsafe_code_level"], config=cfg)


def loop_bodies(F):
    return c12.macro_bodies(F, "read_event_impl")


def r2_typestate(ctx):
    for cfg, F in ctx.facts.items():
        vs = F.variants("reader::ParseState")
        bodies = loop_bodies(F)
        ctx.floor("R2", "instantiations of read_event_impl!", len(bodies), 2 if "async-tokio" in F.features else 1, config=cfg)
        for b in bodies:
            nm = sym.short(strip_generics(b.path).replace("::{closure#0}", ""))
            edges = set()
            nret = 0
            for p in ctx.paths(b, max_paths=60000):
                st = decision_on(p, lambda t: t[0] == "discr" and ends_with_fields(t[1], "state", "state"))
                cur = vs[st] if isinstance(st, int) else "?"
                writes = []
                for e in p:
                    if e[0] == "store" and ends_with_fields(e[2], "state", "state") and e[3][0] == "agg":
                        writes.append(e[3][2])
                    # state changes made inside callees are attributed to their call sites
                    elif e[0] == "call" and name_is(e[2], "read_until_close", "read_until_close_async"):
                        writes.append("InsideText|InsideEmpty")  # emit_start may move to InsideEmpty (C04 R3)
                    elif e[0] == "call" and name_is(e[2], "close_expanded_empty"):
                        writes.append("InsideText")
                last = p[-1]
                src_calls = [c for c in calls(p) if name_is(c[2], "read_text", "skip_whitespace", "peek_one", "read_with", "read_bang_element", "detect_encoding", "remove_utf8_bom", "read_until_close", "read_until_close_async")]
                if last[0] == "loop":
                    # progress: a back edge must follow a write of a different state
                    real = [w for w in writes if w != cur]
                    ctx.ob("R3", "%s:back-edge[%s]" % (nm, cur), bool(real), "the loop continues only after the state changed (%s -> %s): each call makes at most a bounded number of iterations" % (cur, writes), config=cfg)
                    for w in writes:
                        edges.add((cur, w))
                    continue
                if last[0] != "ret":
                    continue
                nret += 1
                r = ret_of(p)
                rv = describe_ret(r, 2)[0]
                final = writes[-1] if writes else None
                for w in writes:
                    edges.add((cur, w))
                if cur == "Done":
                    ctx.ob("R2", "%s:Done-arm" % nm, rv[:2] == ("Ok", "Eof") and not src_calls, "in state Done the reader returns Eof and does not touch the source (calls: %s)" % [sym.short(c[2]) for c in src_calls], config=cfg)
                # classification of the result
                if is_error_exit(p) and len(rv) < 2:
                    ctx.ob("R2", "%s:io-error-propagated[%s]" % (nm, cur), True, "`?` on an io::Result helper (BOM sniff / skip_whitespace): cannot carry a syntax error by type", config=cfg)
                    continue
                if rv[:2] == ("Ok", "Eof"):
                    ctx.ob("R2", "%s:Eof-is-final[%s]" % (nm, cur), final == "Done", "returning Eof must leave the reader in state Done (last state written: %s)" % final, config=cfg)
                elif rv[:1] == ("Err",) and rv[:2] != ("Err", "IllFormed") and len(rv) >= 2:
                    ctx.ob("R2", "%s:error-is-final[%s:%s]" % (nm, cur, rv[1]), final == "Done", "an error other than IllFormed must leave the reader in state Done (last state written: %s)" % final, config=cfg)
                elif r[0] in ("call", "await") or (r[0] == "pl"):
                    # result of read_until_close passed through: the classification forks on it
                    isok = decision_on(p, lambda t: t[0] == "discr" and src_is(t[1], "read_until_close", "read_until_close_async"))
                    inner = decision_on(p, lambda t: t[0] == "discr" and t[1][0] == "pl" and src_is(t[1][1], "read_until_close", "read_until_close_async"))
                    if r[0] == "call" and name_is(r[2], "from_residual"):
                        ctx.ob("R2", "%s:io-error-propagated[%s]" % (nm, cur), True, "`?` on an io::Result helper (BOM sniff / skip_whitespace): cannot carry a syntax error by type", config=cfg)
                        continue
                    evs = F.variants("events::Event")
                    ers = F.variants("errors::Error")
                    if isok == 0:
                        is_eof = isinstance(inner, int) and evs[inner] == "Eof"
                        ctx.ob("R2", "%s:markup-result[Ok,%s]" % (nm, "Eof" if is_eof else "event"), (final == "Done") == is_eof, "Ok(Eof) -> Done, other events leave the state alone (last write %s)" % final, config=cfg)
                    elif isok == 1:
                        ill = isinstance(inner, int) and ers[inner] == "IllFormed"
                        ctx.ob("R2", "%s:markup-result[Err,%s]" % (nm, "IllFormed" if ill else "other"), (final == "Done") != ill, "Err(IllFormed) is recoverable (state untouched), any other Err -> Done (last write %s)" % final, config=cfg)
            ctx.floor("R2", "returning paths of " + nm, nret, 10, config=cfg)
            # transition relation vs the documented diagram
            allowed = {("Init", "InsideText"), ("InsideText", "InsideMarkup"), ("InsideText", "Done"), ("InsideMarkup", "InsideText|InsideEmpty"),
                       ("InsideMarkup", "Done"), ("InsideEmpty", "InsideText"), ("Done", "Done"), ("Init", "Done")}
            bad = {e for e in edges if e not in allowed}
            ctx.ob("R2", "%s:transitions" % nm, not bad and not any(a == "Done" and b_ != "Done" for a, b_ in edges), "state transitions must follow the ParseState diagram and never leave Done; unexpected: %s" % sorted(bad), config=cfg)
            ctx.ob("R2", "%s:transitions:complete" % nm, {("Init", "InsideText"), ("InsideText", "InsideMarkup"), ("InsideText", "Done"), ("InsideEmpty", "InsideText")} <= edges, "the documented edges exist: %s" % sorted(edges), config=cfg)


def src_is(t, *names):
    t = t[1] if t[0] == "await" else t
    return t[0] == "call" and name_is(t[2], *names)


def r3_marker(ctx):
    # obligations of R3 are produced while walking the loop in r2_typestate; make sure they exist
    n = len([o for o in ctx.obs if o["rule"] == "R3"])
    ctx.ob("R3", "back-edges-analysed", n >= 3, "%d back-edge obligations" % n)


def r4_positions(ctx):
    for cfg, F in ctx.facts.items():
        n_off = 0
        n_err = 0
        for b in F.bodies:
            if is_derive(b) or b.j["kind"].startswith("Const"):
                continue
            bp = strip_generics(b.path)
            interesting = any(st.get("p") and any(isinstance(e, dict) and e.get("n") in ("offset", "last_error_offset") and e.get("of") == "quick_xml::reader::state::ReaderState" for e in st["p"][1]) for _, st in b.stmts() if "p" in st)
            deref_pos = "position" in b.names.values() and ("XmlSource" in bp or "TokioAdapter" in bp)
            stream = "BinaryStream" in bp
            if not (interesting or deref_pos or stream):
                continue
            try:
                paths = ctx.paths(b, max_paths=60000)
            except sym.PathBudget:
                ctx.ob("R4", "%s:budget" % sym.short(bp), False, "too many paths", config=cfg)
                continue
            seen = set()
            for p in paths:
                for e in p:
                    if e[0] != "store":
                        continue
                    tgt = e[2]
                    is_off = ends_with_fields(tgt, "offset") and any(isinstance(x, tuple) and x[0] == "f" and x[3] in ("quick_xml::reader::state::ReaderState", "quick_xml::reader::BinaryStream") for x in tgt[2])
                    is_pos = deref_pos and tgt[0] == "pl" and tgt[1][0] == "arg" and tgt[1][2] == "position" and tgt[2] == ("*",)
                    is_bs = stream and tgt[0] == "pl" and ends_with_fields(tgt, "offset")
                    is_err = ends_with_fields(tgt, "last_error_offset")
                    key = (e[1], sym.show(e[3], 4))
                    if key in seen:
                        continue
                    if is_off or is_pos or is_bs:
                        seen.add(key)
                        v = e[3]
                        if bp.endswith("Default>::default") or (v[0] == "c" and v[2] == 0 and "default" in bp.lower()):
                            continue
                        n_off += 1
                        ok = v[0] == "bin" and v[1] == "Add" and (v[2] == tgt or strip_wrappers(v[2]) == strip_wrappers(tgt)) and grows(v[3])
                        ctx.ob("R4", "%s:offset+=%s" % (sym.short(bp.replace("::{closure#0}", "")), sym.show(v[3], 2)[:60] if v[0] == "bin" else sym.show(v, 2)[:60]), ok,
                               "the byte offset may only grow by a length/count (`+=` of a len, an index+1, a byte count): %s := %s" % (sym.show(tgt), sym.show(v, 3)[:140]), loc=b.loc(e[4]), config=cfg)
                    elif is_err:
                        seen.add(key)
                        v = e[3]
                        if v == ("c", "u64", 0):
                            continue
                        n_err += 1
                        ok = derived_from_offset(v)
                        ctx.ob("R4", "%s:error-offset:=%s" % (sym.short(bp.replace("::{closure#0}", "")), sym.show(v, 3)[:70]), ok,
                               "the error position must be derived from the current offset (offset, or the offset saved at entry, minus a consumed amount)", loc=b.loc(e[4]), config=cfg)
        ctx.floor("R4", "offset updates", n_off, 10, config=cfg)
        ctx.floor("R4", "error-offset assignments", n_err, 6, config=cfg)


def grows(t):
    """t is a non-negative amount: a length, an index(+1), a counter, a cast of those."""
    t = strip_wrappers(t)
    if t[0] == "c":
        return isinstance(t[2], int) and t[2] >= 0
    if t[0] == "cast":
        return grows(t[1])
    if t[0] == "len" or (t[0] == "call" and name_is(t[2], "len")):
        return True
    if t[0] == "bin" and t[1] in ("Add", "Mul"):
        return grows(t[2]) and grows(t[3])
    if t[0] in ("phi", "loc", "arg"):
        return True  # an unsigned local (u64/usize counters `read`, `count`, `amt`, `used`, `i`)
    if t[0] == "pl":
        return True  # payload of Some(i) / tuple field: unsigned by type
    if t[0] == "call":
        if name_is(t[2], "unwrap_or", "unwrap_or_else", "map_or", "count", "position", "len", "min", "filled"):
            return True
    if t[0] == "bin" and t[1] == "Sub" and call_is(t[2], "remaining") and call_is(t[3], "remaining"):
        return True  # bytes filled by a poll_read = remaining before - remaining after
    return False


def derived_from_offset(v):
    v = strip_wrappers(v)
    if v[0] == "pl":
        return ends_with_fields(v, "offset")
    if v[0] == "bin" and v[1] in ("Sub", "Add"):
        return derived_from_offset(v[2])
    return False


def r5_panics(ctx):
    panics.audit(ctx, "R5", panics.READER_ENTRIES, panics.READER_EXEMPT, floor=40)


def r5_support(ctx):
    """The audited exemptions of R5 cite facts established by rules of sibling properties; they are
    re-evaluated here so that breaking a cited fact makes C03 itself fire."""
    import c01, c04, c10, c09, consume
    n0 = len(ctx.obs)
    c01.r3_scanners(ctx)      # comment minimum length / terminators: emit_bang's buf[3..len-2], buf[8..len-2]
    c01.r1_dispatch(ctx)      # emit_end / read_bang_element are called only for '/' and '!'
    c01.r4_delimiters(ctx)    # prefix tests guard the constant cuts
    c04.r3_push(ctx)          # InsideEmpty only after a push: close_expanded_empty's unwrap
    c04.r1_table(ctx)         # popped starts index opened_buffer
    c10.r1_sets(ctx)          # escape sets are ASCII and handled: _escape's unreachable!/from_utf8().unwrap()
    c09.r3_name_len(ctx)      # BytesStart::name_len <= buf.len()
    consume.check(ctx, "R5s") # offset counts every consumed byte: `offset - len - 2` cannot underflow
    import c05
    c05.r3_resolver(ctx)      # NamespaceEntry ranges index the resolver's buffer: push/pop keep bindings and buffer in step
    for o in ctx.obs[n0:]:
        if o["rule"] != "R5s":
            o["site"] = o["rule"] + ":" + o["site"]
            o["rule"] = "R5s"


def r6_accessor_termination(ctx):
    """NsReader iterates the attributes of every Start/Empty event inside its read call (NamespaceResolver::push), and
    draining an event's attributes is how every consumer reads a tag: the attribute automaton must reach Done.  C11's
    transition table (every end-of-input outcome leaves state Done, every other outcome moves the state forward) and
    its stays-ended rule are re-evaluated here."""
    import c11
    n0 = len(ctx.obs)
    c11.r1_table(ctx)
    c11.r4_stays_ended(ctx)
    for o in ctx.obs[n0:]:
        o["site"] = "attributes:" + o["rule"] + ":" + o["site"]
        o["rule"] = "R6"


RULES = [("R1", r1_unsafe), ("R2", r2_typestate), ("R3", r3_marker), ("R4", r4_positions), ("R5", r5_panics), ("R5s", r5_support), ("R6", r6_accessor_termination)]
