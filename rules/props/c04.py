"""C04 — End tags are matched against open start tags exactly as configured."""
from engine import *
import sym

CONFIGS_QUICK = ["F_def", "F_all"]  # every configuration whose cfg-gated code the property depends on
CONFIGS_THOROUGH = ["F_def", "F_all"]
TECHNIQUE = 'static analysis: decision-table extraction (emit_end) by symbolic path walking over rustc MIR, operand provenance of the comparison, push/pop/truncate pairing, options-during-skip rule (C12 R1 re-evaluated), unconditional synthetic-End rule for state InsideEmpty'
EXPLANATION = (
    "Decision table of ReaderState::emit_end extracted path by path from MIR (atoms: result of "
    "opened_starts.pop(), config.check_end_names, config.allow_unmatched_ends, result of the slice "
    "comparison) and compared with the reference table of DESIGN.md A.5; operands of the comparison "
    "(byte-for-byte, open upper bound, start taken from the popped index); push/pop/truncate pairing "
    "in emit_start / close_expanded_empty independent of the check flags."
)
ASSUMPTIONS = ["Vec::pop/push/truncate/split_off and slice equality behave as documented in std"]

EMIT_END = "reader::state::ReaderState::emit_end"
EMIT_START = "reader::state::ReaderState::emit_start"
CLOSE_EMPTY = "reader::state::ReaderState::close_expanded_empty"


def is_cfg(t, name):
    return is_self_field(t, "config", name)


def is_pop_discr(t):
    return t[0] == "discr" and call_is(t[1], "Vec::pop") and ends_with_fields(t[1][3][0], "opened_starts")


def is_cmp(t):
    return t[0] == "call" and name_is(t[2], "ne", "eq") and "cmp" in t[2] and "Option" not in t[2]


def r1_table(ctx):
    for cfg, F in ctx.facts.items():
        b = ctx.body(F, EMIT_END, "R1")
        if b is None:
            continue
        paths = ctx.paths(b)
        rows = 0
        for p in paths:
            if ends(p) != "ret":
                continue  # debug_assert failure and match-exhaustiveness `unreachable` arms
            rows += 1
            pop = decision_on(p, is_pop_discr)
            check = decision_on(p, lambda t: is_cfg(t, "check_end_names"))
            allow = decision_on(p, lambda t: is_cfg(t, "allow_unmatched_ends"))
            cmpv = None
            for e in p:
                if e[0] == "switch" and is_cmp(e[2]):
                    isne = name_is(e[2][2], "ne")
                    nz = e[3] != 0
                    cmpv = (isne == nz)  # True = names differ
            names = [sym.short(c[2]) for c in calls(p)]
            popped = any(name_is(c[2], "Vec::pop") and ends_with_fields(c[3][0], "opened_starts") for c in calls(p))
            truncs = [c for c in calls(p) if name_is(c[2], "Vec::truncate") and ends_with_fields(c[3][0], "opened_buffer")]
            rv, inner = describe_ret(ret_of(p), 3)
            site = "emit_end[pop=%s,check=%s,differs=%s,allow=%s]" % (pop, check, cmpv, allow)
            loc = None
            ctx.ob("R1", site + ":pop-unconditional", popped and pop is not None,
                   "every returning path must pop the open-element stack (it is maintained while checking is off, #514); calls on path: %s" % names, config=cfg)
            if pop is None:
                continue
            # position of the pop relative to the flag tests: it must not be control dependent on them
            seq = [("pop" if is_pop_discr(e[2]) else "flag") for e in p if e[0] == "switch" and (is_pop_discr(e[2]) or is_cfg(e[2], "check_end_names") or is_cfg(e[2], "allow_unmatched_ends"))]
            ctx.ob("R1", site + ":pop-before-flags", seq and seq[0] == "pop",
                   "the pop must not be control dependent on check_end_names / allow_unmatched_ends (order of decisions: %s)" % seq, config=cfg)
            if pop == 1:  # Some(start)
                # expected outcome from the reference table
                if check is None:
                    exp = None
                    ctx.ob("R1", site + ":check-tested", False, "a path with an open element returns without testing check_end_names", config=cfg)
                    continue
                if check != 0 and cmpv is None:
                    ctx.ob("R1", site + ":compared", False, "check_end_names is on but no byte-for-byte slice comparison decides this path", config=cfg)
                    continue
                mismatch = check != 0 and cmpv
                if mismatch:
                    good = rv[:3] == ("Err", "IllFormed", "MismatchedEndTag")
                    ctx.ob("R1", site + ":result", good, "open ∧ check ∧ differs must return Err(IllFormed(MismatchedEndTag)); returns %s" % (rv,), config=cfg)
                    if good:
                        # expected = innermost open name, found = the end tag's name
                        mm = ret_of(p)[3][0][3][0]
                        e_ok = has_subterm(mm[3][0], lambda s: s[0] == "call" and name_is(s[2], "index") and ends_with_fields(s[3][0], "opened_buffer"))
                        f_ok = has_subterm(mm[3][1], lambda s: s[0] == "arg" and s[2] == "buf")
                        ctx.ob("R1", site + ":names", e_ok and f_ok, "MismatchedEndTag{expected: from opened_buffer, found: from the end tag}; got expected<-opened_buffer=%s found<-buf=%s" % (e_ok, f_ok), config=cfg)
                else:
                    good = rv[:2] == ("Ok", "End")
                    ctx.ob("R1", site + ":result", good, "open ∧ (¬check ∨ equal) must return Ok(End); returns %s" % (rv,), config=cfg)
                tr_ok = len(truncs) == 1 and has_subterm(truncs[0][3][1], lambda s: call_is(s, "Vec::pop"))
                ctx.ob("R1", site + ":truncate", tr_ok,
                       "every path with an open element must truncate opened_buffer to the popped start exactly once (#513 recovery); truncate calls: %d" % len(truncs), config=cfg)
            else:  # None
                if allow is None:
                    ctx.ob("R1", site + ":allow-tested", False, "a path with nothing open returns without testing allow_unmatched_ends", config=cfg)
                    continue
                if allow == 0:
                    good = rv[:3] == ("Err", "IllFormed", "UnmatchedEndTag")
                    ctx.ob("R1", site + ":result", good, "nothing open ∧ ¬allow must return Err(IllFormed(UnmatchedEndTag)); returns %s" % (rv,), config=cfg)
                else:
                    good = rv[:2] == ("Ok", "End")
                    ctx.ob("R1", site + ":result", good, "nothing open ∧ allow must return Ok(End); returns %s" % (rv,), config=cfg)
                ctx.ob("R1", site + ":no-truncate", not truncs, "nothing to truncate when nothing is open", config=cfg)
            # error rows set the error position to the '<' : offset - len(buf) - 2
            if rv[:1] == ("Err",):
                st = [e for e in p if e[0] == "store" and is_self_field(e[2], "last_error_offset")]
                good = len(st) == 1 and has_subterm(st[0][3], lambda s: s[0] == "pl" and is_self_field(s, "offset")) \
                    and has_subterm(st[0][3], lambda s: call_is(s, "len")) and has_subterm(st[0][3], lambda s: s[0] == "c" and s[2] == 2)
                ctx.ob("R1", site + ":error-position", good, "error rows must set last_error_offset = offset - buf.len() - 2 (the '<')", config=cfg)
        ctx.floor("R1", "returning paths of emit_end", rows, 10, config=cfg)


def r2_compare(ctx):
    for cfg, F in ctx.facts.items():
        b = ctx.body(F, EMIT_END, "R2")
        if b is None:
            continue
        n = 0
        seen = set()
        for p in ctx.paths(b):
            for e in p:
                if e[0] == "call" and is_cmp(("call", e[1], e[2], e[3])) and e[1] not in seen:
                    seen.add(e[1])
                    n += 1
                    a0, a1 = e[3][0], e[3][1]
                    # the end-tag side: derived from the parameter `buf` after cutting the first byte ('/')
                    cut = has_subterm(a0, lambda s: call_is(s, "index") and root_of(s[3][0]) [0] == "arg" and variant_of(s[3][1]) and variant_of(s[3][1])[1] == "RangeFrom" and s[3][1][3][0] == ("c", "usize", 1))
                    ctx.ob("R2", "emit_end:cmp:lhs", cut, "left operand must be the end tag content after '/', i.e. buf[1..] (possibly right-trimmed): %s" % sym.show(a0, 3), loc=b.loc(e[4]), config=cfg)
                    # the stack side: opened_buffer[start..] with start = popped index and an open upper bound
                    def is_open_tail(s):
                        return call_is(s, "index") and ends_with_fields(s[3][0], "opened_buffer") and variant_of(s[3][1]) is not None and variant_of(s[3][1])[1] == "RangeFrom" and has_subterm(s[3][1], lambda x: call_is(x, "Vec::pop"))
                    ctx.ob("R2", "emit_end:cmp:rhs", has_subterm(a1, is_open_tail), "right operand must be opened_buffer[start..] with the popped start and no upper bound: %s" % sym.show(a1, 3), loc=b.loc(e[4]), config=cfg)
                    ctx.ob("R2", "emit_end:cmp:callee", "[u8]" in e[5] and "PartialEq" in e[2], "comparison must resolve to equality of byte slices, is %s over %s" % (e[2], e[5]), config=cfg)
                    # the trimmed variant only uses is_whitespace through rposition
        ctx.floor("R2", "name comparisons in emit_end", n, 1, config=cfg)
        # the optional right-trim of the name: only under the flag, only rposition(!is_whitespace)
        trims = 0
        for p in ctx.paths(b):
            tr = decision_on(p, lambda t: is_cfg(t, "trim_markup_names_in_closing_tags"))
            used = any(name_is(c[2], "rposition") for c in calls(p))
            if ends(p) != "ret" or tr is None:
                continue
            trims += 1
            ctx.ob("R2", "emit_end:trim[%s]" % ("on" if tr != 0 else "off"), used == (tr != 0), "name is right-trimmed iff trim_markup_names_in_closing_tags (rposition used: %s)" % used, config=cfg)
        clo = F.body(EMIT_END + "::{closure#0}")
        if clo is not None:
            cs = [c for _, c in clo.calls()]
            from facts import callee_of
            ok = len(cs) == 1 and name_is(callee_of(cs[0])[1], "is_whitespace")
            ctx.ob("R2", "emit_end:trim-predicate", ok, "the trim predicate must be !is_whitespace(b) and nothing else", config=cfg)
        else:
            ctx.ob("R2", "emit_end:trim-predicate", False, "anchor-missing: trim closure of emit_end", config=cfg)


def r3_push(ctx):
    for cfg, F in ctx.facts.items():
        b = ctx.body(F, EMIT_START, "R3")
        if b is None:
            continue
        rows = 0
        for p in ctx.paths(b):
            if ends(p) != "ret":
                continue
            rows += 1
            rv, _ = describe_ret(ret_of(p), 0)
            pushes = [c for c in calls(p) if name_is(c[2], "Vec::push") and ends_with_fields(c[3][0], "opened_starts")]
            exts = [c for c in calls(p) if name_is(c[2], "extend", "extend_from_slice") and ends_with_fields(c[3][0], "opened_buffer")]
            tested_check = decision_on(p, lambda t: is_cfg(t, "check_end_names")) is not None
            expand = decision_on(p, lambda t: is_cfg(t, "expand_empty_elements"))
            site = "emit_start[ret=%s,expand=%s]" % (rv[0] if rv else "?", expand)
            ctx.ob("R3", site + ":independent-of-check", not tested_check, "the open-element stack is maintained regardless of check_end_names (#514)", config=cfg)
            if rv and rv[0] == "Start":
                good = len(pushes) == 1 and len(exts) == 1
                if good:
                    good = has_subterm(pushes[0][3][1], lambda s: call_is(s, "Vec::len") and ends_with_fields(s[3][0], "opened_buffer"))
                    good = good and has_subterm(exts[0][3][1], lambda s: call_is(s, "BytesStart::name"))
                ctx.ob("R3", site + ":push", good, "a path returning Start must push opened_buffer.len() and append event.name() (pushes=%d, extends=%d)" % (len(pushes), len(exts)), config=cfg)
                st = [e for e in p if e[0] == "store" and is_self_field(e[2], "state")]
                if expand is not None and expand != 0:
                    g2 = len(st) == 1 and st[0][3][:3] == ("agg", "quick_xml::reader::ParseState", "InsideEmpty")
                    ctx.ob("R3", site + ":state", g2, "an expanded empty element must switch the state to InsideEmpty (so that the synthetic End follows)", config=cfg)
                else:
                    ctx.ob("R3", site + ":state", not st, "a normal Start must not change the parse state here", config=cfg)
            elif rv and rv[0] == "Empty":
                ctx.ob("R3", site + ":no-push", not pushes and not exts, "Empty events push nothing", config=cfg)
                ctx.ob("R3", site + ":only-when-not-expanding", expand == 0, "Empty is returned only when expand_empty_elements is off", config=cfg)
            else:
                ctx.ob("R3", site + ":variant", False, "emit_start returns an unexpected event %s" % (rv,), config=cfg)
        ctx.floor("R3", "returning paths of emit_start", rows, 3, config=cfg)
        c = ctx.body(F, CLOSE_EMPTY, "R3")
        if c is None:
            continue
        for p in ctx.paths(c):
            if ends(p) != "ret":
                continue
            pops = [x for x in calls(p) if name_is(x[2], "Vec::pop") and ends_with_fields(x[3][0], "opened_starts")]
            so = [x for x in calls(p) if name_is(x[2], "Vec::split_off") and ends_with_fields(x[3][0], "opened_buffer")]
            good = len(pops) == 1 and len(so) == 1 and has_subterm(so[0][3][1], lambda s: call_is(s, "Vec::pop"))
            ctx.ob("R3", "close_expanded_empty:pop+split_off", good, "the synthetic End pops the start index and splits the name off opened_buffer at it", config=cfg)
            st = [e for e in p if e[0] == "store" and is_self_field(e[2], "state")]
            g2 = len(st) == 1 and st[0][3][:3] == ("agg", "quick_xml::reader::ParseState", "InsideText")
            ctx.ob("R3", "close_expanded_empty:state", g2, "after the synthetic End the state returns to InsideText", config=cfg)
            r = ret_of(p)
            ctx.ob("R3", "close_expanded_empty:name", has_subterm(r, lambda s: call_is(s, "Vec::split_off")), "the End event carries the split-off name", config=cfg)


def r5_options_during_skip(ctx):
    """End tags consumed inside read_to_end are matched by the same emit_end under the same options: read_to_end may
    only touch trim_text_start (saved and restored); C12 R1 is re-evaluated here."""
    import c12
    n0 = len(ctx.obs)
    c12.r1_restore(ctx)
    for o in ctx.obs[n0:]:
        o["site"] = "read_to_end:" + o["site"]
        o["rule"] = "R5"


def r6_read_text_goes_through_skip(ctx):
    """read_text must consume the element through read_to_end (which pops the open-element stack through emit_end): the
    slice implementation's shape (C12 R3) is re-evaluated here, so a shortcut that leaves the stack untouched fires."""
    import c12
    n0 = len(ctx.obs)
    c12.r3_read_text(ctx)
    for o in ctx.obs[n0:]:
        o["site"] = "read_text:" + o["site"]
        o["rule"] = "R6"

def r7_synthetic_end(ctx):
    """The End of an expanded `<x/>` is owed from the moment Start(x) was pushed: in state InsideEmpty the event loop
    hands out close_expanded_empty() and nothing on the way can divert it (no test of an option that the user may have
    changed in between, no assertion): otherwise `x` stays on the stack and later end tags are judged against it."""
    import c03, panics
    for cfg, F in ctx.facts.items():
        vs = F.variants("reader::ParseState")
        n = 0
        for b in c03.loop_bodies(F):
            nm = sym.short(strip_generics(b.path).replace("::{closure#0}", ""))
            for p in ctx.paths(b, max_paths=60000):
                idx = [i for i, e in enumerate(p) if e[0] == "switch" and e[2][0] == "discr" and ends_with_fields(e[2][1], "state", "state")]
                if not idx or not isinstance(p[idx[0]][3], int) or vs[p[idx[0]][3]] != "InsideEmpty":
                    continue
                n += 1
                close = [i for i, e in enumerate(p) if e[0] == "call" and name_is(e[2], "close_expanded_empty")]
                between = [e for e in p[idx[0] + 1:(close[0] if close else len(p))] if e[0] == "switch" or (e[0] == "call" and panics.is_panicking(e[2]))]
                r = ret_of(p)
                ok = bool(close) and not between and ends(p) == "ret" and r is not None and has_subterm(r, lambda s2: call_is(s2, "close_expanded_empty"))
                ctx.ob("R7", "%s:InsideEmpty" % nm, ok, "in state InsideEmpty the loop returns close_expanded_empty() unconditionally; on this path: %s" % (
                    "no call" if not close else "diverted by %s" % [sym.show(e[2], 2)[:60] if e[0] == "switch" else sym.short(e[2]) for e in between] if between else "the result is not what is returned"), config=cfg)
        ctx.floor("R7", "InsideEmpty paths of the event loop", n, 2 if "async-tokio" in F.features else 1, config=cfg)


def r8_whitespace(ctx):
    """where a start tag's name ends and what is trimmed from an end tag's name is decided by XML white space (C01 R5:
    one notion, four characters): a wider set makes `</a\x0C>` close `a`"""
    import c01
    n0 = len(ctx.obs)
    c01.r5_whitespace(ctx)
    for o in ctx.obs[n0:]:
        o["site"] = "whitespace:" + o["site"]
        o["rule"] = "R8"


RULES = [("R1", r1_table), ("R2", r2_compare), ("R3", r3_push), ("R5", r5_options_during_skip), ("R6", r6_read_text_goes_through_skip), ("R7", r7_synthetic_end), ("R8", r8_whitespace)]
