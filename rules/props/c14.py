"""C14 — Deserializing from a string and from any reader gives the same result."""
from engine import *
from facts import strip_generics, callee_of
import sym
import json
import c02, c07, consume

CONFIGS_QUICK = ["F_all", "F_nool"]  # every configuration whose cfg-gated code the property depends on
CONFIGS_THOROUGH = ["F_all", "F_nool"]
TECHNIQUE = 'static analysis: sibling agreement of the two XmlRead impls (call sequences per path), constructor configuration equality, chunk-independence summaries, owned/borrowed arm agreement of in-place trimming, scanner chunk-boundary rows (C01) re-evaluated, CowRef arm agreement (Input vs Slice/Owned) wherever the deserializer matches on a CowRef'
EXPLANATION = (
    "Sibling agreement of the two XmlRead implementations (SliceReader, IoReader): `next` is the same loop (read one event, "
    "StartTrimmer::trim, return on Some) differing only by buf.clear() before the read and into_owned() after it; "
    "read_to_end / decoder / has_nil_attr delegate to the corresponding NsReader methods; both Deserializer constructors "
    "configure the reader identically (only expand_empty_elements = true) and start from StartTrimmer::default(); everything "
    "above XmlRead is one generic body. Chunk independence of the underlying buffered reader is the structural content of "
    "C02 (consumed = advanced on every path, scanner state carried across refills, split terminators), re-evaluated here."
)
ASSUMPTIONS = ["equality of results is not decided; owned events outliving the buffer is enforced by the type PayloadEvent<'static>"]


def shape_of_next(ctx, b):
    """per Ok path: ordered list of the calls that matter"""
    out = set()
    for p in ctx.paths(b):
        last = p[-1]
        names = []
        for c in calls(p):
            nm = sym.short(c[2]).split("::")[-1]
            if nm in ("read_event", "read_event_into", "trim", "clear", "into_owned", "read_event_impl"):
                names.append("read" if nm.startswith("read_event") else nm)
        kind = "loop" if last[0] == "loop" else ("ok" if last[0] == "ret" and describe_ret(ret_of(p), 0)[0][:1] == ("Ok",) else "err" if last[0] == "ret" else None)
        if kind:
            out.add((kind, tuple(names)))
    return out


def r1_siblings(ctx):
    for cfg, F in ctx.facts.items():
        s = F.bodies_with("de::SliceReader", "XmlRead", end="next")
        i = F.bodies_with("de::IoReader", "XmlRead", end="next")
        ctx.ob("R1", "anchors", len(s) == 1 and len(i) == 1, "both XmlRead::next impls found", config=cfg)
        if len(s) == 1 and len(i) == 1:
            a = shape_of_next(ctx, s[0])
            b = shape_of_next(ctx, i[0])
            strip = lambda rows: {(k, tuple(x for x in names if x not in ("clear", "into_owned"))) for k, names in rows}
            ctx.ob("R1", "next:same-loop", strip(a) == strip(b) and ("ok", ("read", "trim")) in strip(a) and ("loop", ("read", "trim")) in strip(a),
                   "both impls: read one event, trim, return on Some / loop on None, `?` on a read error: slice %s, io %s" % (sorted(a), sorted(b)), config=cfg)
            ctx.ob("R1", "next:IoReader:clear-before-read", all(names[:1] == ("clear",) for k, names in b), "IoReader clears its buffer before every read: %s" % sorted(b), config=cfg)
            ctx.ob("R1", "next:IoReader:owned", all(names[-1:] == ("into_owned",) for k, names in b if k == "ok"), "IoReader returns owned events (they must outlive the cleared buffer)", config=cfg)
            ctx.ob("R1", "next:SliceReader:no-buffer", not any("clear" in names or "into_owned" in names for k, names in a), "SliceReader borrows from the input", config=cfg)
        for meth, inner in (("read_to_end", ("read_to_end", "read_to_end_into")), ("decoder", ("decoder",)), ("has_nil_attr", ("has_nil",))):
            for ty in ("SliceReader", "IoReader"):
                for b in F.bodies_with("de::" + ty, "XmlRead", end=meth):
                    cs = [sym.short(c[2]).split("::")[-1] for p in ctx.paths(b) for c in calls(p)]
                    ctx.ob("R1", "%s::%s:delegates" % (ty, meth), any(x in inner for x in cs), "delegates to the reader's %s: %s" % ("/".join(inner), sorted(set(cs))), config=cfg)
        # sibling agreement of the delegating methods: same calls (modulo the `_into` buffer variant) and same writes to self
        def shape(b):
            out = set()
            for p in ctx.paths(b):
                last = p[-1]
                if last[0] != "ret":
                    continue
                r = ret_of(p)
                kind = "ok" if describe_ret(r, 0)[0][:1] == ("Ok",) else ("err" if describe_ret(r, 0)[0][:1] == ("Err",) else "val")
                cs = tuple(sym.short(c[2]).split("::")[-1].replace("_into", "") for c in calls(p) if not name_is(c[2], "into", "from", "branch", "from_residual"))
                st = tuple(sorted({".".join(fields_of(e[2])) for e in p if e[0] == "store" and root_of(e[2])[0] == "arg" and root_of(e[2])[2] == "self"}))
                out.add((kind, cs, st))
            return out
        for meth in ("read_to_end", "decoder", "has_nil_attr"):
            a = F.bodies_with("de::SliceReader", "XmlRead", end=meth)
            b = F.bodies_with("de::IoReader", "XmlRead", end=meth)
            if len(a) == 1 and len(b) == 1:
                sa, sb = shape(a[0]), shape(b[0])
                ctx.ob("R1", "%s:siblings-agree" % meth, sa == sb,
                       "SliceReader::%s and IoReader::%s must make the same calls and the same writes to their own state (in particular both or neither bring the start-trimming state up to date): slice %s, io %s" % (meth, meth, sorted(sa), sorted(sb)), config=cfg)
            else:
                ctx.ob("R1", "%s:siblings-agree" % meth, False, "anchor-missing", config=cfg)
        # who may write the start-trimmer state: StartTrimmer::trim (through &mut self), the skip of both readers, the constructors
        writers = set()
        for body in F.bodies:
            if "src/de/" not in body.span(body.j["span"])["root"]:
                continue
            for _, st in body.stmts():
                pl = st.get("p")
                if pl and any(isinstance(e, dict) and e.get("n") in ("start_trimmer", "trim_start") for e in pl[1]):
                    writers.add(sym.short(strip_generics(body.path)).split("::")[-1])
        ctx.ob("R1", "start_trimmer:writers", writers <= {"trim", "read_to_end"}, "the start-trimming state is updated only by StartTrimmer::trim and by the skip of the two readers: %s" % sorted(writers), config=cfg)
        # constructors
        cons = {}
        for b in F.bodies:
            bp = strip_generics(b.path)
            if "de::Deserializer" in bp and bp.split("::")[-1] in ("from_str_with_resolver", "with_resolver", "from_reader", "from_str"):
                writes = []
                for _, st in b.stmts():
                    pl = st.get("p")
                    if pl and pl[1]:
                        flds = [e for e in pl[1] if isinstance(e, dict) and e.get("of") == "quick_xml::reader::Config"]
                        if flds:
                            writes.append((flds[-1]["n"], st["r"].get("o", {}).get("k", {}).get("v")))
                trimmer = any(name_is(callee_of(t)[0] or "", "default") and "StartTrimmer" in str(t["f"]) for _, t in b.calls())
                if writes or trimmer:
                    cons[bp.split("::")[-1] + ("/slice" if "'de, quick_xml::de::SliceReader" in b.path or "SliceReader" in b.path else "/io")] = (tuple(sorted(writes)), trimmer)
        vals = set(cons.values())
        ctx.ob("R1", "constructors:same-config", len(cons) >= 2 and len(vals) == 1 and list(vals)[0] == ((("expand_empty_elements", "true"),), True),
               "both constructors set exactly expand_empty_elements = true and start with StartTrimmer::default(): %s" % cons, config=cfg)


def r2_chunks(ctx):
    consume.check(ctx, "R2")
    n0 = len(ctx.obs)
    c02.r3_carry(ctx)
    import c01
    c01.r3_scanners(ctx)   # terminators split between the buffered part and the chunk (only a reader sees them)
    for o in ctx.obs[n0:]:
        o["rule"] = "R2"


MUTATORS = ("drain", "truncate", "remove", "retain", "split_off", "clear", "rotate_left", "copy_within", "swap_remove", "set_len", "resize", "insert", "push", "extend_from_slice")


def r3_owned_borrowed(ctx):
    """The string-backed reader hands out borrowed events, the buffered one owned events; the deserializer trims both
    in place through events::trim_cow.  Its Owned arm must yield exactly what the Borrowed arm yields: trim(bytes)."""
    for cfg, F in ctx.facts.items():
        b = ctx.body(F, "events::trim_cow", "R3")
        if b is None:
            continue
        rows = {"Borrowed": 0, "Owned": 0}
        for p in ctx.paths(b):
            if ends(p) != "ret":
                continue
            r = ret_of(p)
            k = decision_on(p, lambda t: t[0] == "discr" and root_of(t[1])[0] == "arg" and root_of(t[1])[2] == "value")
            arm = {0: "Borrowed", 1: "Owned"}.get(k)
            if arm is None or r[0] != "agg":
                ctx.ob("R3", "trim_cow:shape", False, "trim_cow is expected to match on the Cow and return a Cow (path returns %s)" % sym.show(r, 2), config=cfg)
                continue
            rows[arm] += 1
            payload = strip_wrappers(r[3][0]) if r[3] else None
            trims = [("call", c[1], c[2], c[3]) for c in calls(p) if isinstance(c[2], str) and name_is(c[2], "call_once", "call", "call_mut") and c[3] and strip_wrappers(c[3][0])[0] == "arg" and strip_wrappers(c[3][0])[2] == "trim"]
            if arm == "Borrowed":
                ok = r[2] == "Borrowed" and len(trims) == 1 and payload == trims[0]
                ctx.ob("R3", "trim_cow[Borrowed]", ok, "borrowed bytes: the result is trim(bytes)", config=cfg)
                continue
            muts = [c for c in calls(p) if isinstance(c[2], str) and name_is(c[2], *MUTATORS) and has_subterm(c[3][0], lambda s2: s2[0] == "arg" and s2[2] == "value")]
            copy = payload is not None and payload[0] == "call" and name_is(payload[2], "to_vec", "to_owned", "into", "from", "into_owned") and trims and strip_wrappers(payload[3][0]) == trims[0]
            same = payload is not None and payload[0] == "pl" and root_of(payload)[0] == "arg" and root_of(payload)[2] == "value" and not muts
            if copy:
                ctx.ob("R3", "trim_cow[Owned:changed]", r[2] == "Owned", "owned bytes that trim() shortened: the result is a copy of trim(bytes)", config=cfg)
            elif same:
                # the buffer is returned untouched: only sound where trim() removed nothing
                eq = [e for e in p if e[0] == "switch" and e[2][0] == "bin" and e[2][1] in ("Ne", "Eq") and trims and has_subterm(e[2], lambda s2: s2 == trims[0])
                      and has_subterm(e[2], lambda s2: call_is(s2, "len") and has_subterm(s2, lambda s3: s3[0] == "arg" and s3[2] == "value"))]
                unchanged = bool(eq) and all((e[3] == 0) == (e[2][1] == "Ne") for e in eq)
                ctx.ob("R3", "trim_cow[Owned:unchanged]", unchanged, "the owned buffer is returned as it is only where trim(bytes) has the same length as bytes", config=cfg)
            else:
                ctx.ob("R3", "trim_cow[Owned:in-place]", False, "the owned buffer is edited in place (%s) instead of being replaced by a copy of trim(bytes): not a recognised way of producing the same bytes as the Borrowed arm (fail closed)" % sorted({sym.short(c[2]) for c in muts}), config=cfg)
        ctx.ob("R3", "trim_cow:arms", rows["Borrowed"] >= 1 and rows["Owned"] >= 2, "both representations handled: %s" % rows, config=cfg)
        # callers pass the one-sided trimmers that their names promise
        want = {"inplace_trim_start": "trim_xml_start", "inplace_trim_end": "trim_xml_end"}
        n = 0
        for cb, i, t in callers_of(F, "events::trim_cow"):
            fn = sym.short(strip_generics(cb.path)).split("::")[-1]
            if fn not in want:
                continue
            n += 1
            passed = [sym.short(a["c"]["fn"]) if isinstance(a, dict) and isinstance(a.get("c"), dict) and "fn" in a["c"] else None for a in t.get("args", [])]
            txt = json.dumps(t.get("args", []))
            ctx.ob("R3", "%s:trimmer" % fn, want[fn] in txt and not any(w in txt for k2, w in want.items() if k2 != fn), "%s trims with %s" % (fn, want[fn]), config=cfg)
        ctx.floor("R3", "in-place trim callers", n, 2, config=cfg)


def r4_cowref_arms(ctx):
    """The string source hands the deserializer `CowRef::Input` data, the buffered source `CowRef::Slice` / `Owned`
    data.  Wherever the deserializer matches on a CowRef, the three arms must put the bytes through the same
    crate functions (they may differ only in how the result is wrapped or handed to the visitor)."""
    for cfg, F in ctx.facts.items():
        n = 0
        for b in F.bodies:
            bp = strip_generics(b.path)
            if "::de::" not in bp or is_derive(b):
                continue
            if not any(t.get("k") == "switch" for blk in b.blocks for t in [blk.get("term") or {}]):
                continue
            if "CowRef" not in json.dumps(b.locals):
                continue
            try:
                paths = ctx.paths(b)
            except sym.PathBudget:
                continue
            arms = {}
            for p in paths:
                if ends(p) != "ret":
                    continue
                sw = [e for e in p if e[0] == "switch" and e[2][0] == "discr" and len(e[2]) > 3 and str(e[2][3]).endswith("utils::CowRef") and isinstance(e[3], int)]
                if not sw:
                    continue
                v = sw[0][3]
                after = p[p.index(sw[0]):]
                # a private helper that the walker inlined counts as what it does, not as a name of its own
                inlined = {e[1][1] for e in after if e[0] in ("call", "switch", "store", "ret", "head") and isinstance(e[1], tuple) and len(e[1]) > 2 and e[1][0] == "in"}
                sig = tuple(sorted({sym.short(strip_generics(e[2])) for e in after if e[0] == "call" and isinstance(e[2], str) and ("quick_xml::" in e[2]) and e[1] not in inlined
                                    and not name_is(e[2], "from", "into", "from_residual", "branch") and not e[2].rsplit("::", 1)[-1].startswith("visit_")}))
                arms.setdefault(v, set()).add(sig)
            if len(arms) < 2:
                continue
            n += 1
            names = {0: "Input", 1: "Slice", 2: "Owned"}
            ref = arms.get(0)
            for v, sigs in sorted(arms.items()):
                if v == 0 or ref is None:
                    continue
                ctx.ob("R4", "%s:CowRef::%s" % (sym.short(bp), names.get(v, v)), sigs == ref,
                       "the %s arm must use the same crate functions as the Input arm: %s vs %s" % (names.get(v, v), sorted(sigs), sorted(ref)), config=cfg)
        ctx.floor("R4", "functions matching on a CowRef", n, 3, config=cfg)


def r5_whitespace(ctx):
    """the string-backed and the reader-backed arms of the value splitters agree on what separates items: no std
    whitespace helper anywhere in the crate (one-whitespace-notion, C01 R5)"""
    for cfg, F in ctx.facts.items():
        one_whitespace_notion(ctx, "R5", F, cfg)


RULES = [("R1", r1_siblings), ("R2", r2_chunks), ("R3", r3_owned_borrowed), ("R4", r4_cowref_arms), ("R5", r5_whitespace)]
