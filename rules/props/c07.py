"""C07 — Deserialization is total: any input gives a value or an error, never a panic."""
from engine import *
from facts import strip_generics, callee_of
import sym
import panics

CONFIGS_QUICK = ["F_all", "F_nool"]  # every configuration whose cfg-gated code the property depends on
CONFIGS_THOROUGH = ["F_all", "F_nool"]
TECHNIQUE = 'static analysis: panic-site enumeration over MIR of src/de with justification classes re-verified per run (peek-then-next dominance, who-may-assign flags, merging-transducer drop set, config who-may-write), reader panic audit re-evaluated as a premise, compile-fail witness, Ok-exit justification of XmlReader::read_to_end, explicit table of audited debug assertions'
EXPLANATION = (
    "Panic-site audit of src/de/*: every panic-capable construct (unreachable!/panic calls, unwrap/expect, range "
    "indexing, split_at/split_off, bounds/overflow asserts) is enumerated from MIR and must be discharged by a local "
    "argument or belong to a justification class whose supporting facts are re-verified on every run: J1 peek-then-next "
    "(the matched next() is dominated by a peek() of the same deserializer matched to the required variant with no "
    "consuming call in between), J2 flag-carried protocol (ValueSource::{Text,Nested,Content}, fixed_name, is_text are only "
    "written where peek() matched the required variant), J3 reader guarantees matched tags (both constructors leave "
    "check_end_names / allow_unmatched_ends untouched and only set expand_empty_elements), J4 no two consecutive "
    "DeEvent::Text (XmlReader is a merging transducer: the lookahead is only filled by read_lookahead, which never returns "
    "a DOCTYPE, XmlReader::next drops nothing else after the lookahead except a last text that became empty, and drain_text "
    "handles exactly the variants current_event_is_last_text() lets through), J6 container just filled, J7 audited "
    "library facts. RD: the event reader under the deserializer must not panic either: C03's reader panic audit and its "
    "supporting facts are re-evaluated."
)
ASSUMPTIONS = ["panics in serde itself or in user Deserialize impls are out of scope", "a user Visitor follows serde's MapAccess/SeqAccess/EnumAccess protocol (key before value, variant_seed before *_variant)"]

CONSUMING = ("next", "skip", "read_to_end", "read_text", "read_string_impl", "read_string", "skip_next_tree", "next_impl")


def devar(F, i):
    vs = F.variants("de::DeEvent")
    return vs[i] if isinstance(i, int) and vs and i < len(vs) else str(i)


def _payload_of(t, fn):
    """t = discr(*(Try::branch(<fn>(..)) as Continue.0)) : the event a `<fn>()?` returned"""
    if t[0] != "discr" or t[1][0] != "pl":
        return False
    inner = tried(("pl", t[1][1], tuple(x for x in t[1][2] if x != "*")[:2]))
    if inner is None:
        return False
    return inner[0] == "call" and name_is(inner[2], fn) and "Deserializer" in inner[2] and "Iterator" not in inner[2]


def is_peek_discr(t):
    return _payload_of(t, "peek")


def is_next_discr(t):
    return _payload_of(t, "next")


def a_audit(ctx):
    panics.audit(ctx, "A", panics.DE_ENTRIES, panics.DE_EXEMPT, floor=24)


def j1_peek_then_next(ctx):
    """In-function J1 sites: MapValueSeqAccess::next_element_seed (Text and Start arms)."""
    for cfg, F in ctx.facts.items():
        n = 0
        for b in F.bodies_with("de::map::MapValueSeqAccess", "SeqAccess", end="next_element_seed") + F.bodies_with("de::map::ElementMapAccess", "MapAccess", end="next_value_seed") + F.bodies_with("de::", end="next_element_seed"):
            if "simple_type" in b.path:
                continue
            try:
                paths = ctx.paths(b, max_paths=60000)
            except sym.PathBudget:
                ctx.ob("J1", "%s:budget" % sym.short(strip_generics(b.path)), False, "too many paths", config=cfg)
                continue
            for p in paths:
                for i, e in enumerate(p):
                    if e[0] == "call" and panics.is_panicking(e[2]) and not any(m.startswith("debug_assert") for m in panics.macro_of(b, e[4])):
                        # the decision that selected this arm
                        sel = [x for x in p[:i] if x[0] == "switch" and is_next_discr(x[2])]
                        pk = [x for x in p[:i] if x[0] == "switch" and is_peek_discr(x[2])]
                        if not sel or not pk:
                            continue  # not a J1 site (J2: selected by a flag) — audited in the table
                        n += 1
                        peeked = pk[-1][3]
                        k_peek = p.index(pk[-1])
                        k_next = [k for k, x in enumerate(p) if x[0] == "call" and name_is(x[2], "next") and "Deserializer" in x[2] and k > k_peek]
                        between = [sym.short(x[2]) for x in p[k_peek:k_next[0]] if x[0] == "call" and name_is(x[2], *CONSUMING) and "Deserializer" in x[2]] if k_next else ["?"]
                        got = sel[-1][3]
                        ok = isinstance(peeked, int) and got != peeked and not between
                        ctx.ob("J1", "%s:peek=%s" % (sym.short(strip_generics(b.path)), devar(F, peeked)), ok,
                               "the panicking arm is the complement of the variant that peek() returned just before next(), with no consuming call in between (peeked %s, arm taken %s, calls between %s)" % (devar(F, peeked), devar(F, got) if isinstance(got, int) else got, between),
                               loc=b.loc(e[4]), config=cfg)
        ctx.floor("J1", "peek-then-next sites", n, 2, config=cfg)


def j2_flags(ctx):
    for cfg, F in ctx.facts.items():
        vsrc = F.variants("de::map::ValueSource")
        dev = F.variants("de::DeEvent")
        nk = F.bodies_with("de::map::ElementMapAccess", "MapAccess", end="next_key_seed")
        ctx.ob("J2", "next_key_seed:anchor", len(nk) == 1, "found", config=cfg)
        want = {"Text": {"Text"}, "Nested": {"Start"}, "Content": {"Text", "Start"}}
        seen = {}
        for b in nk:
            for p in ctx.paths(b, max_paths=60000):
                for k, e in enumerate(p):
                    if e[0] == "store" and is_self_field(e[2], "source") and e[3][0] == "agg" and e[3][2] in want:
                        pk = [x for x in p[:k] if x[0] == "switch" and is_peek_discr(x[2])]
                        peeked = devar(F, pk[-1][3]) if pk else None
                        after = [sym.short(x[2]) for x in p[k:] if x[0] == "call" and name_is(x[2], *CONSUMING) and "Deserializer" in x[2]]
                        seen.setdefault(e[3][2], set()).add(peeked)
                        ctx.ob("J2", "source=%s:set-under-peek" % e[3][2], peeked in want[e[3][2]] and not after,
                               "ValueSource::%s is written only where peek() returned %s and nothing is consumed before returning (peeked %s, later consuming calls %s)" % (e[3][2], sorted(want[e[3][2]]), peeked, after), config=cfg)
        ctx.ob("J2", "source:all-set", set(seen) == set(want), "all three content sources are assigned in next_key_seed: %s" % {k: sorted(str(x) for x in v) for k, v in seen.items()}, config=cfg)
        # who else writes self.source with these variants?
        others = []
        for b in F.bodies:
            if "src/de/" not in panics.body_file(b) or b in nk:
                continue
            for _, st in b.stmts():
                r = st.get("r")
                if r and r["k"] == "agg" and r.get("adt", "").endswith("ValueSource") and r["variant"] in want:
                    others.append((sym.short(strip_generics(b.path)), r["variant"]))
        ctx.ob("J2", "source:no-other-writer", not others, "no other function constructs ValueSource::{Text,Nested,Content}: %s" % others, config=cfg)
        # fixed_name: true only under Nested; false under Content
        nv = F.bodies_with("de::map::ElementMapAccess", "MapAccess", end="next_value_seed")
        for b in nv:
            for p in ctx.paths(b, max_paths=60000):
                src = decision_on(p, lambda t: t[0] == "discr" and call_is(t[1], "replace"))
                for c in calls(p):
                    for a in c[3]:
                        if a[0] == "agg" and a[1].endswith("MapValueDeserializer"):
                            fx = a[3][1]
                            sv = vsrc[src] if isinstance(src, int) else str(src)
                            ctx.ob("J2", "fixed_name=%s" % sym.show(fx), (fx == ("c", "bool", True)) == (sv == "Nested") and sv in ("Nested", "Content"),
                                   "MapValueDeserializer{fixed_name: true} is built exactly for ValueSource::Nested (source %s)" % sv, config=cfg)
        for b in F.bodies:
            if b in nv:
                continue
            has = any(st.get("r", {}).get("k") == "agg" and st["r"].get("adt", "").endswith("de::map::MapValueDeserializer") for _, st in b.stmts())
            if not has:
                continue
            fn = sym.short(strip_generics(b.path))
            for p in ctx.paths(b, max_paths=60000):
                it = decision_on(p, lambda t: is_self_field(t, "is_text"))
                for c in calls(p):
                    for a in c[3]:
                        if a[0] == "agg" and a[1].endswith("MapValueDeserializer"):
                            ctx.ob("J2", "%s:fixed_name=%s" % (fn, sym.show(a[3][1])), "VariantAccess" in b.path and it == 0 and a[3][1] == ("c", "bool", True),
                                   "outside next_value_seed a MapValueDeserializer{fixed_name: true} may only be built by the variant accessors on their `!is_text` path (variant_seed peeked Start): is_text decision %s" % it, config=cfg)
        # is_text in variant_seed: true iff peek() == Text, false iff Start
        for b in F.bodies_with("de::map::MapValueDeserializer", "EnumAccess", end="variant_seed"):
            for p in ctx.paths(b, max_paths=60000):
                r = ret_of(p)
                if r is None or describe_ret(r, 0)[0][:1] != ("Ok",):
                    continue
                pk = decision_on(p, is_peek_discr)
                acc = [s for s in sym.subterms(r) if s[0] == "agg" and s[1].endswith("MapValueVariantAccess")]
                if acc:
                    it = acc[0][3][-1]
                    ctx.ob("J2", "is_text[peek=%s]" % devar(F, pk), (it == ("c", "bool", True)) == (devar(F, pk) == "Text") and devar(F, pk) in ("Text", "Start"),
                           "variant access remembers whether peek() was Text (is_text=%s)" % sym.show(it), config=cfg)


def j3_config(ctx):
    for cfg, F in ctx.facts.items():
        n = 0
        for b in F.bodies:
            if "src/de/" not in panics.body_file(b):
                continue
            for _, st in b.stmts():
                pl = st.get("p")
                if pl and pl[1]:
                    flds = [e for e in pl[1] if isinstance(e, dict) and e.get("of") == "quick_xml::reader::Config"]
                    if flds:
                        n += 1
                        val = st["r"].get("o", {}).get("k", {}).get("v") if st["r"]["k"] == "use" else None
                        ctx.ob("J3", "%s:config.%s" % (sym.short(strip_generics(b.path)), flds[-1]["n"]), flds[-1]["n"] == "expand_empty_elements" and val == "true",
                               "deserializer code may only set expand_empty_elements = true; check_end_names / allow_unmatched_ends keep their defaults (the reader then rejects mismatched and stray end tags)", loc=b.loc(st["s"]), config=cfg)
        ctx.floor("J3", "Config writes in src/de", n, 2, config=cfg)
        d = F.bodies_with("reader::Config", "Default", end="default")
        for b in d:
            for p in ctx.paths(b):
                r = ret_of(p)
                if r is not None and r[0] == "agg":
                    a = F.adt("reader::Config")
                    names = [f["name"] for f in a["variants"][0]["fields"]]
                    vals = dict(zip(names, r[3]))
                    ctx.ob("J3", "Config::default", vals.get("check_end_names") == ("c", "bool", True) and vals.get("allow_unmatched_ends") == ("c", "bool", False),
                           "defaults: check_end_names = true, allow_unmatched_ends = false", config=cfg)
        # the reader is not reachable mutably through the public Deserializer API
        outs = [f["path"] for f in F.j["fns"] if "de::Deserializer" in f.get("self_ty", "") and "Public" in f["vis"] and "&mut" in f["sig"].split("->")[-1] and "Reader" in f["sig"].split("->")[-1]]
        ctx.ob("J3", "Deserializer:no-&mut-reader", not outs, "no public Deserializer method hands out a mutable reader: %s" % outs, config=cfg)


def j4_merging(ctx):
    for cfg, F in ctx.facts.items():
        pv = F.variants("de::PayloadEvent")
        rl = ctx.body(F, "de::XmlReader::read_lookahead", "J4")
        never_doctype = False
        if rl is not None:
            oks = 0
            bad = 0
            for p in ctx.paths(rl):
                r = ret_of(p)
                if r is None or describe_ret(r, 0)[0][:1] != ("Ok",):
                    continue
                oks += 1
                d = [e for e in p if e[0] == "switch" and e[2][0] == "discr" and e[2][1][0] == "pl"]
                v = d[-1][3] if d else None
                listed = d[-1][4] if d else ()
                isdt = (isinstance(v, int) and pv[v] == "DocType") or (v == "else" and pv.index("DocType") not in listed) or v is None
                bad += 1 if isdt else 0
            never_doctype = oks >= 1 and bad == 0
            ctx.ob("J4", "read_lookahead:never-DocType", never_doctype, "the lookahead filler returns only on the non-DOCTYPE arm (Ok exits %d, possibly DOCTYPE %d)" % (oks, bad), config=cfg)
        # who writes self.lookahead
        writers = []
        for b in F.bodies:
            if "de::XmlReader" not in b.path:
                continue
            for p in ctx.paths(b, max_paths=20000):
                for e in p:
                    if e[0] == "call" and name_is(e[2], "replace") and ends_with_fields(e[3][0], "lookahead"):
                        writers.append((sym.short(strip_generics(b.path)), call_is(e[3][1], "read_lookahead")))
                    if e[0] == "store" and ends_with_fields(e[2], "lookahead"):
                        writers.append((sym.short(strip_generics(b.path)), call_is(e[3], "read_lookahead")))
                r = ret_of(p)
                if r is not None and r[0] == "agg" and r[1].endswith("de::XmlReader"):
                    writers.append((sym.short(strip_generics(b.path)), call_is(r[3][1], "read_lookahead")))
        ws = set(writers)
        ctx.ob("J4", "lookahead:only-from-read_lookahead", len(ws) >= 2 and all(x[1] for x in ws), "every value stored in XmlReader::lookahead comes from read_lookahead: %s" % sorted(ws), config=cfg)
        # dropped set of XmlReader::next after the lookahead
        nx = ctx.body(F, "de::XmlReader::next", "J4")
        if nx is not None:
            dropped = {}
            for p in ctx.paths(nx):
                if ends(p) != "loop":
                    continue
                d = [e for e in p if e[0] == "switch" and e[2][0] == "discr" and e[2][1][0] == "pl" and has_subterm(e[2], lambda s: call_is(s, "next_impl")) and any(isinstance(x, tuple) and x[0] == "d" and x[2] in ("Continue", "Ok") for x in e[2][1][2])]
                v = pv[d[-1][3]] if d and isinstance(d[-1][3], int) else "?"
                last = decision_on(p, lambda t: call_is(t, "current_event_is_last_text"))
                trimmed = decision_on(p, lambda t: call_is(t, "inplace_trim_end"))
                dropped.setdefault(v, []).append((last, trimmed))
            for v, conds in dropped.items():
                if v == "Text":
                    ok = all(l not in (0, None) and t not in (0, None) for l, t in conds)
                    ctx.ob("J4", "next:drops[Text]", ok, "a text is dropped only when it is the last of its run and became empty after end-trimming: %s" % conds, config=cfg)
                elif v == "DocType":
                    ctx.ob("J4", "next:drops[DocType]", never_doctype, "a DOCTYPE dropped *after* the one-event lookahead separates two text events (`x<!DOCTYPE y>z` -> two DeEvent::Text in a row -> unreachable!() in read_text); tolerated only if the lookahead can never hold a DOCTYPE", config=cfg)
                else:
                    ctx.ob("J4", "next:drops[%s]" % v, False, "XmlReader::next silently drops %s events after the lookahead" % v, config=cfg)
            ctx.ob("J4", "next:drop-arms", "Text" in dropped, "continue arms found: %s" % sorted(dropped), config=cfg)
        # current_event_is_last_text <-> drain_text arms
        ce = ctx.body(F, "de::XmlReader::current_event_is_last_text", "J4")
        notlast = set()
        if ce is not None:
            for p in ctx.paths(ce):
                r = ret_of(p)
                okv = decision_on(p, lambda t: t[0] == "discr" and ends_with_fields(t[1], "lookahead"))
                d = [e for e in p if e[0] == "switch" and e[2][0] == "discr" and e[2][1][0] == "pl" and not ends_with_fields(e[2][1], "lookahead")]
                if r is not None and r == ("c", "bool", False):
                    if okv == 0 and d and isinstance(d[-1][3], int):
                        notlast.add(pv[d[-1][3]])
                    else:
                        notlast.add("?")
            ctx.ob("J4", "current_event_is_last_text", notlast == {"Text", "CData"}, "a text run continues exactly while the lookahead is Ok(Text) or Ok(CData): %s" % sorted(notlast), config=cfg)
        dt = ctx.body(F, "de::XmlReader::drain_text", "J4")
        if dt is not None:
            handled = set()
            guarded = True
            for p in ctx.paths(dt):
                d = [e for e in p if e[0] == "switch" and e[2][0] == "discr" and has_subterm(e[2], lambda s: call_is(s, "next_impl")) and e[2][1][0] == "pl" and any(isinstance(x, tuple) and x[0] == "d" and x[2] in ("Continue", "Ok") for x in e[2][1][2])]
                if not d:
                    continue
                last = decision_on(p, lambda t: call_is(t, "current_event_is_last_text"))
                if last != 0:
                    guarded = False
                v = d[-1][3]
                panics_here = any(e[0] == "call" and panics.is_panicking(e[2]) for e in p)
                if isinstance(v, int) and not panics_here:
                    handled.add(pv[v])
            ctx.ob("J4", "drain_text:handles", handled == notlast and guarded, "drain_text consumes the lookahead only when it is Text/CData and handles exactly those variants: handled %s" % sorted(handled), config=cfg)


def j6_just_filled(ctx):
    for cfg, F in ctx.facts.items():
        b = ctx.body(F, "de::Deserializer::peek", "J6")
        if b is None:
            continue
        field = "read" if "overlapped-lists" in F.features else "peek"
        ok_paths = 0
        # peeking twice gives the same event: the container is refilled from the reader only when it is empty
        for p in ctx.paths(b):
            fills = [i for i, e in enumerate(p) if (e[0] == "call" and name_is(e[2], "push_front") and ends_with_fields(e[3][0], field)) or (e[0] == "store" and is_self_field(e[2], field))]
            reads = [i for i, e in enumerate(p) if e[0] == "call" and name_is(e[2], "XmlReader::next", "next_impl") and not isinstance(e[1], tuple)]
            if not fills and not reads:
                continue
            first = min(fills + reads)
            empty = any((e[0] == "switch" and e[2][0] == "call" and name_is(e[2][2], "is_empty", "is_none") and e[3] != 0) or
                        (e[0] == "switch" and e[2][0] == "discr" and is_self_field(strip_wrappers(e[2][1]), field) and e[3] == 0) or
                        (e[0] == "switch" and e[2][0] == "discr" and call_is(strip_wrappers(e[2][1]), "front", "as_ref", "front_mut") and e[3] == 0) for e in p[:first])
            ctx.ob("J6", "peek:refill-only-when-empty", empty, "the reader is asked for the next event only on paths where `%s` was found empty (otherwise a peeked event would be overwritten or overtaken)" % field, config=cfg)
        for p in ctx.paths(b):
            pan = [i for i, e in enumerate(p) if e[0] == "call" and panics.is_panicking(e[2])]
            if not pan:
                continue
            # the panic is reachable only syntactically: on this path the container was filled or tested non-empty just before
            filled = any(e[0] == "call" and name_is(e[2], "push_front") and ends_with_fields(e[3][0], field) for e in p[:pan[0]]) or \
                any(e[0] == "store" and is_self_field(e[2], field) and e[3][0] == "agg" and e[3][2] == "Some" for e in p[:pan[0]])
            nonempty = any(e[0] == "switch" and e[2][0] == "call" and name_is(e[2][2], "is_empty", "is_none") and e[3] == 0 for e in p[:pan[0]]) or \
                any(e[0] == "switch" and e[2][0] == "discr" and is_self_field(strip_wrappers(e[2][1]), field) and e[3] == 1 for e in p[:pan[0]]) or \
                any(e[0] == "switch" and e[2][0] == "discr" and call_is(strip_wrappers(e[2][1]), "front", "as_ref", "front_mut") and has_subterm(e[2][1], lambda s2: s2[0] == "pl" and ends_with_fields(s2, field)) and e[3] == 1
                    and not any(x[0] == "call" and name_is(x[2], "pop_front", "take", "clear") for x in p[p.index(e):pan[0]]) for e in p[:pan[0]])   # `front().is_none()` was false and nothing was taken since
            ok_paths += 1
            ctx.ob("J6", "peek:just-filled", filled or nonempty, "the unreachable!() after `front()`/`as_ref()` lies on paths where `%s` was filled by push_front/Some(..) or tested non-empty just before" % field, config=cfg)
        ctx.ob("J6", "peek:site", ok_paths >= 1, "panic site of peek() found on %d path(s)" % ok_paths, config=cfg)


def j1b_preconditions(ctx):
    """Cross-function J1: callees whose first action is `match self.next()? { Start(..) => .., _ => unreachable!() }`
    (skip_next_tree) may only be called where peek() has just been matched to Start."""
    for cfg, F in ctx.facts.items():
        n = 0
        for b, i, t in callers_of(F, "skip_next_tree"):
            fn = sym.short(strip_generics(b.path))
            try:
                paths = ctx.paths(b, max_paths=60000)
            except sym.PathBudget:
                ctx.ob("J1", "%s:skip_next_tree:budget" % fn, False, "too many paths", config=cfg)
                continue
            seen = False
            for p in paths:
                ks = [k for k, e in enumerate(p) if e[0] == "call" and e[1] == i]
                if not ks:
                    continue
                seen = True
                k = ks[0]
                def lp(t):
                    # `let _ = self.peek()?; match self.last_peeked() {..}` (borrow-checker idiom): same slot
                    return t[0] == "discr" and has_subterm(t[1], lambda s: call_is(s, "last_peeked"))
                pk = [(j, x) for j, x in enumerate(p[:k]) if x[0] == "switch" and (is_peek_discr(x[2]) or (lp(x[2]) and any(y[0] == "call" and name_is(y[2], "peek") and "Deserializer" in y[2] for y in p[:j])))]
                ok = bool(pk) and devar(F, pk[-1][1][3]) == "Start"
                between = [sym.short(x[2]) for x in p[(pk[-1][0] if pk else 0):k] if x[0] == "call" and name_is(x[2], *CONSUMING) and "Deserializer" in x[2]]
                ctx.ob("J1", "%s:skip_next_tree:peeked-Start" % fn, ok and not between,
                       "skip_next_tree() panics unless the next event is a Start: the call must lie on paths where peek() was matched to Start and nothing was consumed since (peeked %s, consumed %s)" % (devar(F, pk[-1][1][3]) if pk else "nothing matched", between),
                       loc=b.loc(t["s"]), config=cfg)
            if seen:
                n += 1
        ctx.floor("J1", "callers of skip_next_tree", n, 2, config=cfg)


def rd_reader_total(ctx):
    """Deserializing from a reader or a string drives the event reader over the same bytes: a panic in the reader is a
    panic of the deserializer.  The reader's own panic-site audit (C03 R5) and the facts its exemptions cite (C03 R5s)
    are therefore re-evaluated here, so that a change which lets the reader panic makes C07 itself fire."""
    import c03
    n0 = len(ctx.obs)
    c03.r5_panics(ctx)
    c03.r5_support(ctx)
    for o in ctx.obs[n0:]:
        o["site"] = "reader:" + o["rule"] + ":" + o["site"]
        o["rule"] = "RD"


def j2b_fallthrough(ctx):
    """`unreachable!` arms justified by "the caller only lets variants V through" stay unreachable only while the match
    still lists every variant of V: the panicking path must be the otherwise edge of a switch that lists them."""
    table = {"de::map::MapValueVariantAccess": ("unit_variant", {"Start", "Text"})}
    for cfg, F in ctx.facts.items():
        dev = F.variants("de::DeEvent")
        for ty, (fn, need) in table.items():
            for b in F.bodies_with(ty, "VariantAccess", end=fn):
                n = 0
                for p in ctx.paths(b):
                    pan = [i for i, e in enumerate(p) if e[0] == "call" and panics.is_panicking(e[2])]
                    if not pan:
                        continue
                    n += 1
                    sw = [e for e in p[:pan[0]] if e[0] == "switch" and is_next_discr(e[2])]
                    listed = {dev[v] for e in sw for v in e[4] if isinstance(v, int) and v < len(dev)}
                    took = {dev[e[3]] for e in sw if isinstance(e[3], int) and e[3] < len(dev)}
                    ctx.ob("J2", "%s:unreachable-arm" % fn, need <= listed and not (took & need), "the unreachable!() arm is taken only for events other than %s (listed before it: %s)" % (sorted(need), sorted(listed)), config=cfg)
                ctx.floor("J2", "%s panicking paths" % fn, n, 1, config=cfg)


def j7_output_space(ctx):
    """The `unreachable!()` for DecoderResult::OutputFull in encoding::decode_into is exempt because "enough space was
    reserved above": that holds only if the amount handed to String::reserve is the decoder's own worst-case bound for
    these bytes (reserve counts from the length, so nothing may be subtracted from it)."""
    for cfg, F in ctx.facts.items():
        if "encoding" not in F.features:
            ctx.ob("J7", "decode_into:not-compiled", True, "only with the `encoding` feature", config=cfg)
            continue
        b = ctx.body(F, "encoding::decode_into", "J7")
        if b is None:
            continue
        n = 0
        for p in ctx.paths(b):
            dec = [c for c in calls(p) if name_is(c[2], "decode_to_string_without_replacement")]
            if not dec:
                continue
            n += 1
            res = [c for c in calls(p) if name_is(c[2], "reserve", "reserve_exact") and calls(p).index(c) < calls(p).index(dec[0])]
            bound = [("call", c[1], c[2], c[3]) for c in calls(p) if name_is(c[2], "max_utf8_buffer_length_without_replacement")]
            ok = len(res) == 1 and len(bound) == 1
            if ok:
                amt = strip_wrappers(res[0][3][1])
                # the reserved amount is the bound itself: unwrap()/expect()/`?` of that call, nothing else
                while amt[0] == "call" and name_is(amt[2], "unwrap", "expect", "unwrap_or_default") and amt[3]:
                    amt = strip_wrappers(amt[3][0])
                t0 = tried(amt)
                if t0 is not None:
                    amt = strip_wrappers(t0)
                ok = amt == bound[0] and has_subterm(bound[0][3][1], lambda s2: s2[0] == "arg" and s2[2] == "bytes") and has_subterm(dec[0][3][1], lambda s2: s2[0] == "arg" and s2[2] == "bytes")
            ctx.ob("J7", "decode_into:reserved=worst-case", ok, "before decoding, exactly max_utf8_buffer_length_without_replacement(bytes.len()) is reserved on the output string", config=cfg)
        ctx.floor("J7", "decoding paths of decode_into", n, 1, config=cfg)

def j8_skip_total(ctx):
    """XmlReader::read_to_end says Ok only when the subtree really was skipped: the callers' `unreachable!()` /
    end-name assertions after a skip rely on it.  An Ok exit must have seen every reader.read_to_end succeed, or have
    found the matching End already in the lookahead, or (lookahead is an error) have unpacked that error with `?`."""
    for cfg, F in ctx.facts.items():
        b = ctx.body(F, "de::XmlReader::read_to_end", "J8")
        if b is None:
            continue
        oks = 0
        for p in ctx.paths(b):
            r = ret_of(p)
            if ends(p) != "ret" or r is None or describe_ret(r, 0)[0][:1] != ("Ok",):
                continue
            oks += 1
            skips = [e for e in p if e[0] == "call" and name_is(e[2], "read_to_end") and not name_is(e[2], "XmlReader::read_to_end")]
            def ok_of(c):
                # checked directly (`r?`, `match r`) or through a combination of results (`r1.and(r2)?`)
                # the Ok side of a test of the result: arm 0 of a `match`/`?`, or the fall-through of `if let Err(e) = r { return .. }`
                return any(e[0] == "switch" and e[2][0] == "discr" and e[3] != 1 and has_subterm(e[2][1], lambda s2: s2[0] == "call" and s2[1] == c[1]) for e in p)
            la = decision_on(p, lambda t: t[0] == "discr" and is_self_field(strip_wrappers(t[1]), "lookahead"))
            if skips:
                just = all(ok_of(c) for c in skips)
                why = "skipped by the reader (%d call(s), all checked)" % len(skips) if just else "a reader.read_to_end result is dropped"
            elif la == 1:
                nx = [e for e in p if e[0] == "call" and name_is(e[2], "next_impl")]
                just = bool(nx) and all(ok_of(c) for c in nx)
                why = "lookahead holds an error: it must be unpacked (next_impl()?), found %s" % ("checked" if just else "dropped")
            else:
                just = any(e[0] == "switch" and call_is(e[2], "eq") and e[3] != 0 and has_subterm(e[2], lambda s: call_is(s, "BytesEnd::name")) for e in p)
                why = "matching End already pre-read" if just else "nothing was skipped and no matching End was pre-read"
            ctx.ob("J8", "XmlReader::read_to_end:Ok[lookahead=%s,skips=%d]" % ({0: "Ok", 1: "Err"}.get(la, "?"), len(skips)), just, "an Ok exit must be justified: " + why, config=cfg)
        ctx.floor("J8", "Ok exits of XmlReader::read_to_end", oks, 4, config=cfg)


def j9_skip_without_buffer(ctx):
    """the end-name assertions and unreachable!() after a skipped element also rely on the feature-less
    Deserializer::read_to_end consuming the whole element (C15 R7's row table re-evaluated)"""
    import c15
    n0 = len(ctx.obs)
    c15.r7_skip_without_buffer(ctx)
    for o in ctx.obs[n0:]:
        o["rule"] = "J9"


RULES = [("A", a_audit), ("J2b", j2b_fallthrough), ("RD", rd_reader_total), ("J1", j1_peek_then_next), ("J1b", j1b_preconditions), ("J2", j2_flags), ("J3", j3_config), ("J4", j4_merging), ("J6", j6_just_filled), ("J7", j7_output_space), ("J8", j8_skip_total), ("J9", j9_skip_without_buffer)]


def THOROUGH_EXTRA(ctx):
    return run_witnesses(ctx, "W", ['W2ConfigImmutable'])
