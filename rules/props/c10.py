"""C10 — Escaping is safe and unescaping is its exact inverse."""
from engine import *
import sym

CONFIGS_QUICK = ["F_def", "F_all"]  # every configuration whose cfg-gated code the property depends on
CONFIGS_THOROUGH = ["F_def", "F_all"]
TECHNIQUE = 'static analysis: exact value sets of byte predicates, extracted replacement and entity tables (inverse check), decision table of numeric character references, copy discipline of unescape_with (gap, replacement, tail), provenance rule for the UTF-8 decoder tag'
EXPLANATION = (
    "Value sets of the byte predicates of escape/partial_escape/minimal_escape (exact sets by value-set propagation "
    "over their MIR) against the promised sets; the replacement table of _escape (byte -> literal) checked to be the "
    "inverse of resolve_xml_entity's extracted table / of decimal character references and to contain no raw markup "
    "character; the single Borrowed exit of unescape_with; the `&`/`;` needles and pairing; the character-reference "
    "decision table of parse_number / from_str_radix (radix constants, sign rejection before the std parser, zero and "
    "invalid scalar values mapped to errors)."
)
ASSUMPTIONS = ["u32::from_str_radix and char::from_u32 are correct (std)", "memchr2_iter yields exactly the positions of its two needles"]

PROMISED = {
    "escape::escape": {60, 62, 38, 39, 34},
    "escape::partial_escape": {60, 62, 38},
    "escape::minimal_escape": {60, 38},
}


def entity_table(ctx, F, cfg, rule):
    """name(bytes) -> replacement(bytes) extracted from resolve_xml_entity."""
    b = ctx.body(F, "escape::resolve_xml_entity", rule)
    if b is None:
        return None
    table = {}
    for p in ctx.paths(b):
        r = ret_of(p)
        if r is None or r[0] != "agg" or r[2] != "Some":
            continue
        lit = bytes_literal(r[3][0])
        idx = {}
        length = None
        for t, v, listed in decisions(p):
            if t[0] == "bin" and t[1] == "Eq" and t[2][0] == "len" and v != 0:
                length = t[3][2]
            if t[0] == "pl" and t[2] and isinstance(t[2][-1], tuple) and t[2][-1][0] == "ci" and v != "else":
                idx[t[2][-1][1]] = v
        if length is None or sorted(idx) != list(range(length)) or lit is None:
            ctx.ob(rule, "resolve_xml_entity:row", False, "a Some(..) row of resolve_xml_entity could not be read as a full-name match (len=%s, bytes=%s)" % (length, idx), config=cfg)
            continue
        table[bytes(idx[i] for i in range(length))] = lit
    return table


def escape_table(ctx, F, cfg, rule):
    """byte -> replacement literal, and the set of handled bytes, from _escape."""
    b = ctx.body(F, "escape::_escape", rule)
    if b is None:
        return None, None
    table = {}
    handled = set()
    for p in ctx.paths(b):
        for i, e in enumerate(p):
            if e[0] == "switch" and len(e[4]) >= 5 and e[2][0] == "pl" and has_subterm(e[2], lambda s: call_is(s, "as_bytes")):
                handled |= set(e[4])
                if e[3] == "else":
                    # must be the unreachable!() arm
                    tail = p[i + 1:]
                    ok = any(x[0] == "call" and isinstance(x[2], str) and "panic" in x[2] for x in tail) or p[-1][0] in ("diverge", "unreachable")
                    ctx.ob(rule, "_escape:catch-all", ok, "bytes without a replacement must not be copied silently", config=cfg)
                    continue
                nxt = [x for x in p[i + 1:] if x[0] == "call" and name_is(x[2], "extend_from_slice")]
                lit = bytes_literal(nxt[0][3][1]) if nxt else None
                if lit is None:
                    ctx.ob(rule, "_escape:arm[%d]" % e[3], False, "no literal replacement follows the match on this byte", config=cfg)
                else:
                    table[e[3]] = lit
    return table, handled


def r1_sets(ctx):
    for cfg, F in ctx.facts.items():
        table, handled = escape_table(ctx, F, cfg, "R1")
        for fn, want in PROMISED.items():
            b = ctx.body(F, fn + "::{closure#0}", "R1")
            if b is None:
                continue
            vs = valueset(b)
            name = fn.split("::")[-1]
            ctx.ob("R1", name + ":promised", vs >= want, "escape set %s must contain the promised %s" % (sorted(vs), sorted(want)), config=cfg)
            ctx.ob("R1", name + ":amp", 38 in vs, "'&' must always be escaped (else unescape is not the inverse)", config=cfg)
            ctx.ob("R1", name + ":ascii", all(v < 128 for v in vs), "only ASCII bytes may be selected (UTF-8 integrity of the output; from_utf8().unwrap())", config=cfg)
            if handled is not None:
                ctx.ob("R1", name + ":handled", vs <= handled, "every selected byte needs a replacement arm in _escape (else unreachable!() fires): %s vs %s" % (sorted(vs), sorted(handled)), config=cfg)
            # the closure must be what is handed to _escape by the public function
            pub = ctx.body(F, fn, "R1")
            if pub is not None:
                ok = any(name_is(c[2], "_escape") and any(a[0] == "closure" and a[1].endswith(name + "::{closure#0}") for a in c[3]) for p in ctx.paths(pub) for c in calls(p))
                ctx.ob("R1", name + ":wired", ok, "%s must pass this predicate to _escape" % name, config=cfg)


def r2_inverse(ctx):
    for cfg, F in ctx.facts.items():
        ents = entity_table(ctx, F, cfg, "R2")
        table, handled = escape_table(ctx, F, cfg, "R2")
        if ents is None or table is None:
            continue
        ctx.floor("R2", "entities in resolve_xml_entity", len(ents), 5, config=cfg)
        ctx.floor("R2", "replacement arms in _escape", len(table), 9, config=cfg)
        for byte, lit in sorted(table.items()):
            site = "_escape:replacement[%d]" % byte
            ok = lit.startswith(b"&") and lit.endswith(b";")
            inner = lit[1:-1]
            if ok and inner.startswith(b"#"):
                try:
                    ok = int(inner[1:].decode()) == byte and not inner[1:].startswith(b"+")
                except ValueError:
                    ok = False
                how = "decimal character reference"
            elif ok:
                ok = ents.get(inner) == bytes([byte])
                how = "entity resolved by resolve_xml_entity to %r" % ents.get(inner)
            else:
                how = "not of the form &..;"
            ctx.ob("R2", site + ":inverse", ok, "replacement %r for byte %d must unescape to exactly that byte (%s)" % (lit, byte, how), config=cfg)
            ctx.ob("R2", site + ":no-markup", not (set(lit) & {60, 62, 39, 34}) and lit.count(b"&") == 1, "replacement %r must not itself contain markup characters" % lit, config=cfg)
        for name, val in sorted(ents.items()):
            ctx.ob("R2", "resolve_xml_entity[%s]" % name.decode(), {b"lt": b"<", b"gt": b">", b"amp": b"&", b"apos": b"'", b"quot": b'"'}.get(name) == val,
                   "predefined entity table of XML 1.1 section 4.6: %s -> %r" % (name.decode(), val), config=cfg)
        # wiring: unescape uses resolve_predefined_entity -> resolve_xml_entity (without escape-html)
        u = ctx.body(F, "escape::unescape", "R2")
        if u is not None:
            ok = any(name_is(c[2], "unescape_with") and any(a[0] == "fn" and name_is(a[1], "resolve_predefined_entity") for a in c[3]) for p in ctx.paths(u) for c in calls(p))
            ctx.ob("R2", "unescape:resolver", ok, "unescape must resolve through resolve_predefined_entity", config=cfg)
        rp = ctx.body(F, "escape::resolve_predefined_entity", "R2")
        if rp is not None:
            cs = [c for p in ctx.paths(rp) for c in calls(p)]
            ok = len(cs) == 1 and name_is(cs[0][2], "resolve_xml_entity" if "escape-html" not in F.features else "resolve_html5_entity")
            ctx.ob("R2", "resolve_predefined_entity:delegates", ok, "delegates to the XML table (calls: %s)" % [sym.short(c[2]) for c in cs], config=cfg)


def r2b_copy_discipline(ctx):
    """_escape copies bytes[pos..new_pos] before each replacement, continues at new_pos + 1 and appends the rest:
    every input byte is either copied or replaced, exactly once."""
    for cfg, F in ctx.facts.items():
        b = ctx.body(F, "escape::_escape", "R2")
        if b is None:
            continue
        loops = 0
        okpos = True
        okcopy = True
        for p in ctx.paths(b):
            if p[-1][0] != "loop":
                continue
            # the running output position: the carried value built from its own previous value (any name)
            own = [v for nm, v in p[-1][2].items() if v[0] == "bin" and has_subterm(v, lambda s2, nm=nm: s2[0] == "phi" and s2[3] == nm)]
            carried = own[0] if len(own) == 1 else p[-1][2].get("pos")
            if carried is None:
                continue
            loops += 1
            # pos := (pos' + i) + 1 with i the position() result of this iteration
            good = carried[0] == "bin" and carried[1] == "Add" and carried[3] == ("c", "usize", 1) and carried[2][0] == "bin" and carried[2][1] == "Add" \
                and carried[2][2][0] == "phi" and has_subterm(carried[2][3], lambda s: call_is(s, "position"))
            okpos = okpos and good
            ext = [c for c in calls(p) if name_is(c[2], "extend_from_slice")]
            pre = [c for c in ext if has_subterm(c[3][1], lambda s: call_is(s, "index") and s[3][1][0] == "agg" and s[3][1][2] == "Range")]
            g2 = len(pre) == 1 and pre[0][3][1] is not None
            if g2:
                rng = [s2 for s2 in sym.subterms(pre[0][3][1]) if call_is(s2, "index")][0][3][1]
                g2 = rng[3][0][0] == "phi" and rng[3][1] == carried[2]
            okcopy = okcopy and g2
        ctx.ob("R2", "_escape:resume", loops >= 9 and okpos, "after a replacement scanning resumes right behind the replaced byte: pos = (pos + i) + 1 on all %d loop paths" % loops, config=cfg)
        ctx.ob("R2", "_escape:copy-before", loops >= 9 and okcopy, "the untouched bytes[pos..pos+i] are copied before every replacement", config=cfg)
        tails = 0
        for p in ctx.paths(b):
            r = ret_of(p)
            if r is None or not (r[0] == "agg" and r[2] == "Owned"):
                continue
            tails += 1
            rest = [c for c in calls(p) if name_is(c[2], "get") and has_subterm(c[3][1], lambda s: s[0] == "agg" and s[2] == "RangeFrom")]
            ctx.ob("R2", "_escape:rest", len(rest) == 1, "the bytes after the last replacement are appended (bytes.get(pos..))", config=cfg)
        ctx.ob("R2", "_escape:owned-exit", tails >= 1, "owned exits found", config=cfg)


def r3_borrowed(ctx):
    for cfg, F in ctx.facts.items():
        b = ctx.body(F, "escape::unescape_with", "R3")
        if b is None:
            continue
        n = 0
        for p in ctx.paths(b):
            r = ret_of(p)
            if r is None:
                continue
            rv, inner = describe_ret(r, 1)
            if rv[:2] == ("Ok", "Borrowed"):
                n += 1
                inner_t = strip_wrappers(r[3][0][3][0])
                is_param = inner_t[0] == "arg" and inner_t[1] == 1
                created = any(name_is(c[2], "String::with_capacity", "String::new") for c in calls(p))
                found_amp = any(e[0] == "switch" and has_subterm(e[2], lambda s: call_is(s, "find")) and e[3] == 1 for e in p)
                ctx.ob("R3", "unescape_with:borrowed", is_param and not created and not found_amp,
                       "Cow::Borrowed must return the parameter itself, on the path where no '&' was found and no output buffer was created (param=%s, buffer created=%s, amp found=%s)" % (is_param, created, found_amp), config=cfg)
        ctx.floor("R3", "Borrowed exits of unescape_with", n, 1, config=cfg)


def r4_pairing(ctx):
    for cfg, F in ctx.facts.items():
        b = ctx.body(F, "escape::unescape_with", "R4")
        if b is None:
            continue
        paths = ctx.paths(b)
        needles = None
        for p in paths:
            for c in calls(p):
                if name_is(c[2], "memchr2_iter"):
                    needles = {const_int(c[3][0]), const_int(c[3][1])}
        ctx.ob("R4", "unescape_with:needles", needles == {38, 59}, "the scanner must look for exactly '&' and ';' (needles %s)" % needles, config=cfg)
        # closure of find: bytes[*p] == b'&'
        clo = F.body("escape::unescape_with::{closure#0}")
        ok = False
        if clo is not None:
            for p in sym.walk(clo):
                r = ret_of(p)
                if r is not None and r[0] == "bin" and r[1] == "Eq" and 38 in (const_int(r[2]), const_int(r[3])):
                    ok = True
        ctx.ob("R4", "unescape_with:start-is-amp", ok, "an entity starts at a position holding '&'", config=cfg)
        # after '&' the next hit must be ';' else UnterminatedEntity
        unterminated = 0
        semis = 0
        for p in paths:
            r = ret_of(p)
            rv = describe_ret(r, 2)[0] if r is not None else ()
            if rv[:2] == ("Err", "UnterminatedEntity"):
                unterminated += 1
            for e in p:
                if e[0] == "switch" and e[2][0] == "bin" and e[2][1] == "Eq" and 59 in (const_int(e[2][2]), const_int(e[2][3])):
                    semis += 1
        ctx.ob("R4", "unescape_with:unterminated", unterminated >= 1 and semis >= 1, "a '&' not followed by ';' as the next hit is UnterminatedEntity (error exits %d, ';' tests %d)" % (unterminated, semis), config=cfg)
        # every path that resolves an entity / character reference has seen `;` as the hit right after the `&`
        nres = 0
        bad = 0
        for p in paths:
            res = [c for c in calls(p) if name_is(c[2], "parse_number") or (isinstance(c[2], tuple)) or name_is(c[2], "call_mut", "call_once", "call")]
            if not res:
                continue
            nres += 1
            semi = [e for e in p if e[0] == "switch" and e[2][0] == "bin" and e[2][1] == "Eq" and 59 in (const_int(e[2][2]), const_int(e[2][3]))]
            nxt = decision_on(p, lambda t: t[0] == "discr" and call_is(t[1], "next") and not has_subterm(t[1], lambda s: call_is(s, "find")))
            if not semi or semi[-1][3] == 0 or nxt != 1:
                bad += 1
        ctx.ob("R4", "unescape_with:resolve-only-terminated", nres >= 2 and bad == 0, "an entity is resolved only on paths where the next hit after '&' is a ';' (%d resolving paths, %d without the test)" % (nres, bad), config=cfg)
        # after a resolved entity copying resumes right after the ';' (last_end = end + 1), and the text before the '&' is copied
        okl = False
        for p in paths:
            if p[-1][0] == "loop":
                for le in p[-1][2].values():
                    if le[0] == "bin" and le[1] == "Add" and le[3] == ("c", "usize", 1) and has_subterm(le[2], lambda s: call_is(s, "next")):
                        okl = True
        ctx.ob("R4", "unescape_with:resume-after-semicolon", okl, "after an entity the copy position is the index of ';' + 1", config=cfg)
        # unknown entity -> error, never copied through
        unk = sum(1 for p in paths if ret_of(p) is not None and describe_ret(ret_of(p), 2)[0][:2] == ("Err", "UnrecognizedEntity"))
        ctx.ob("R4", "unescape_with:unknown-entity", unk >= 1, "an unresolved entity is an error", config=cfg)


def const_int(t):
    t = strip_wrappers(t)
    if t[0] == "c" and isinstance(t[2], int) and not isinstance(t[2], bool):
        return t[2]
    return None


def r5_charref(ctx):
    for cfg, F in ctx.facts.items():
        b = ctx.body(F, "escape::parse_number", "R5")
        if b is None:
            continue
        rows = 0
        for p in ctx.paths(b):
            if ends(p) != "ret":
                continue
            hexp = decision_on(p, lambda t: t[0] == "discr" and call_is(t[1], "strip_prefix"))
            radix = [const_int(c[3][1]) for c in calls(p) if name_is(c[2], "from_str_radix")]
            arg0 = [c[3][0] for c in calls(p) if name_is(c[2], "from_str_radix")]
            pref = [c for c in calls(p) if name_is(c[2], "strip_prefix")]
            rows += 1
            site = "parse_number[hex=%s]" % (hexp == 1)
            want = 16 if hexp == 1 else 10
            ctx.ob("R5", site + ":radix", radix == [want], "radix must be %d (is %s)" % (want, radix), config=cfg)
            if pref:
                ctx.ob("R5", site + ":prefix", strip_wrappers(pref[0][3][1]) == ("c", "char", "'x'"), "the hexadecimal prefix is exactly 'x'", config=cfg)
            if hexp == 1 and arg0:
                ctx.ob("R5", site + ":digits", has_subterm(arg0[0], lambda s: call_is(s, "strip_prefix")), "hex digits are what follows the prefix", config=cfg)
            r = ret_of(p)
            rv = describe_ret(r, 2)[0]
            zero = decision_on(p, lambda t: t[0] == "bin" and t[1] == "Eq" and const_int(t[3]) == 0)
            fu = decision_on(p, lambda t: t[0] == "discr" and call_is(t[1], "from_u32"))
            if rv[:1] == ("Ok",):
                ctx.ob("R5", site + ":ok", zero == 0 and fu == 1 and has_subterm(r, lambda s: call_is(s, "from_u32")), "Ok only for a non-zero value accepted by char::from_u32, returning that char", config=cfg)
            elif rv[:2] == ("Err", "IllegalCharacter"):
                ctx.ob("R5", site + ":zero", zero not in (0, None), "IllegalCharacter exactly on the zero path", config=cfg)
            elif rv[:2] == ("Err", "InvalidCodepoint"):
                ctx.ob("R5", site + ":invalid", fu == 0, "InvalidCodepoint exactly when char::from_u32 is None", config=cfg)
        ctx.floor("R5", "returning paths of parse_number", rows, 4, config=cfg)
        g = ctx.body(F, "escape::from_str_radix", "R5")
        if g is None:
            continue
        signs = set()
        std_called_on_sign = False
        std = 0
        for p in ctx.paths(g):
            r = ret_of(p)
            if r is None:
                continue
            rv = describe_ret(r, 2)[0]
            first = [e for e in p if e[0] == "switch" and e[2][0] == "pl" and has_subterm(e[2], lambda s: call_is(s, "copied", "first", "cloned"))]
            vals = [e[3] for e in first if isinstance(e[3], int) and e[4] and len(e[4]) >= 2]
            called = any(name_is(c[2], "from_str_radix") and "num" in c[2] for c in calls(p))
            if rv[:2] == ("Err", "UnexpectedSign"):
                signs |= set(vals)
                std_called_on_sign |= called
            if called:
                std += 1
                sc = [c for c in calls(p) if name_is(c[2], "from_str_radix") and "num" in c[2]][0]
                a0 = strip_wrappers(sc[3][0])
                ctx.ob("R5", "from_str_radix:checked-is-parsed", a0[0] == "arg" and a0[2] == "src",
                       "the string handed to the std parser (which accepts a leading '+') must be the very string whose first byte was tested for a sign; it is %s" % sym.show(sc[3][0], 3), config=cfg)
                ok = r[0] == "call" and name_is(r[2], "map_err") and any(a[0] == "fn" and a[1].endswith("InvalidNumber") or (a[0] == "c" and "InvalidNumber" in str(a[2])) for a in r[3])
                ctx.ob("R5", "from_str_radix:std", ok or has_subterm(r, lambda s: call_is(s, "from_str_radix")), "digits are parsed by u32::from_str_radix and its error mapped to InvalidNumber", config=cfg)
        ctx.ob("R5", "from_str_radix:signs", signs == {43, 45} and not std_called_on_sign, "a leading '+' or '-' is UnexpectedSign before the std parser is consulted (signs %s)" % sorted(signs), config=cfg)
        ctx.ob("R5", "from_str_radix:std-reached", std >= 1, "the std parser is reached for unsigned input", config=cfg)


def r6_unescape_copies(ctx):
    """unescape_with(): every byte of the input is either part of a resolved reference (replaced) or copied.  Round the
    loop: the text since the previous reference, raw[last_end..start], is pushed before the replacement and last_end
    becomes end + 1.  On the Owned exit the text after the last reference, raw[last_end..], is pushed."""
    for cfg, F in ctx.facts.items():
        b = ctx.body(F, "escape::unescape_with", "R6")
        if b is None:
            continue
        nloop = nown = 0
        for p in ctx.paths(b):
            r = ret_of(p)
            pushes = [c for c in calls(p) if name_is(c[2], "push_str", "push", "extend_from_slice", "write_str")]
            if ends(p) == "loop":
                nloop += 1
                car = None
                amp = [c for c in calls(p) if name_is(c[2], "find")]
                semi = [c for c in calls(p) if name_is(c[2], "next") and not isinstance(c[1], tuple)]
                ok = bool(pushes) and bool(amp) and bool(semi)
                gap = False
                if ok:
                    startp = ("call", amp[0][1], amp[0][2], amp[0][3])
                    endp = ("call", semi[-1][1], semi[-1][2], semi[-1][3])
                    a0 = pushes[0][3][1]
                    gaps = [s2 for s2 in sym.subterms(a0) if call_is(s2, "index") and s2[3][1][0] == "agg" and s2[3][1][2] == "Range"
                            and strip_wrappers(s2[3][1][3][0])[0] == "phi" and has_subterm(s2[3][1][3][1], lambda s3: s3 == startp)]
                    gap = bool(gaps)
                    if gap:
                        car = p[-1][2].get(strip_wrappers(gaps[0][3][1][3][0])[3])
                    nxt = car is not None and car[0] == "bin" and car[1] == "Add" and strip_wrappers(car[3]) == ("c", "usize", 1) and has_subterm(car[2], lambda s3: s3 == endp)
                    ok = gap and nxt and len(pushes) == 2
                ctx.ob("R6", "unescape_with:loop:gap-then-replacement", ok, "each resolved reference: push raw[last_end..start], push the replacement, last_end = end + 1 (pushes %d, gap pushed %s, last_end %s)" % (len(pushes), gap, sym.show(car, 2) if car is not None else None), config=cfg)
            elif r is not None and describe_ret(r, 1)[0][:2] == ("Ok", "Owned"):
                nown += 1
                g = [c for c in calls(p) if name_is(c[2], "get", "index") and c[3][1][0] == "agg" and c[3][1][2] == "RangeFrom"]
                tail_ok = False
                if g:
                    G = ("call", g[-1][1], g[-1][2], g[-1][3])
                    frm = strip_wrappers(g[-1][3][1][3][0])
                    d = decision_on(p, lambda t: t[0] == "discr" and t[1] == G)
                    pushed = any(has_subterm(c[3][1], lambda s2: s2 == G) for c in pushes)
                    from_last = frm[0] == "phi" or frm == ("c", "usize", 0)
                    tail_ok = from_last and (pushed if d == 1 else d is not None)
                ctx.ob("R6", "unescape_with:owned:tail", tail_ok, "the text after the last reference, raw[last_end..], is appended before returning the owned result", config=cfg)
        ctx.floor("R6", "resolved-reference back edges of unescape_with", nloop, 2, config=cfg)
        ctx.floor("R6", "Owned exits of unescape_with", nown, 1, config=cfg)


def r7_escaped_is_utf8(ctx):
    """An event built from a Rust string (escaped text, CDATA pieces) holds UTF-8 bytes and must say so: unescaping it
    later decodes with the event's decoder, so tagging string-derived bytes with a document's decoder breaks
    unescape(escape(s)) == s for non-ASCII s in a non-UTF-8 document."""
    for cfg, F in ctx.facts.items():
        n = 0
        for b in F.bodies:
            if not b.loc(b.j["span"]).startswith("src/events/") or is_derive(b) or "::tests" in b.path:
                continue
            if not any((callee_of(t)[0] or "").endswith("::wrap") for _, t in b.calls()):
                continue
            seen = set()
            for p in ctx.paths(b):
                for c in calls(p):
                    if not (isinstance(c[2], str) and c[2].endswith("::wrap") and len(c[3]) == 2):
                        continue
                    content, dec = c[3]
                    from_str = has_subterm(content, lambda s2: s2[0] == "call" and name_is(s2[2], "as_bytes", "into_bytes", "str_cow_to_bytes", "escape::escape", "escape::partial_escape", "escape::minimal_escape"))
                    if not from_str or c[1] in seen:
                        continue
                    seen.add(c[1])
                    n += 1
                    d0 = strip_wrappers(dec)
                    utf8 = call_is(d0, "Decoder::utf8") or (d0[0] == "agg" and "UTF_8" in str(d0[3])) or (d0[0] == "agg" and d0[1].endswith("Decoder") and not d0[3])
                    ctx.ob("R7", "%s:string-bytes-are-utf8" % sym.short(strip_generics(b.path)), utf8, "bytes that come from a Rust string are wrapped with Decoder::utf8(), found %s" % sym.show(d0, 2)[:60], loc=b.loc(c[4]), config=cfg)
        ctx.floor("R7", "events built from strings", n, 5, config=cfg)


def r8_constructors(ctx):
    """every constructor that takes text (BytesText::new, the (&str, &str) / (&str, Cow<str>) attribute conversions,
    push_attribute) stores escape(text), on every arm (C09 R1 re-evaluated)"""
    import c09
    n0 = len(ctx.obs)
    c09.r1_escaping(ctx)
    for o in ctx.obs[n0:]:
        o["site"] = "constructors:" + o["site"]
        o["rule"] = "R8"


def r9_decoder_keeps_everything(ctx):
    """reading a payload back goes through Decoder::decode: it must decode all of the bytes it is given (C17 R7
    re-evaluated: a payload starting with U+FEFF keeps it)"""
    import c17
    c17.r7_decodes_all_of_it(ctx, "R9")


RULES = [("R1", r1_sets), ("R2", r2_inverse), ("R2b", r2b_copy_discipline), ("R3", r3_borrowed), ("R4", r4_pairing), ("R5", r5_charref), ("R6", r6_unescape_copies), ("R7", r7_escaped_is_utf8), ("R8", r8_constructors), ("R9", r9_decoder_keeps_everything)]
