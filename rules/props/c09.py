"""C09 — Events built through the API and written are read back identical."""
from engine import *
from facts import strip_generics, callee_of
import sym
import writer_tab as wt

CONFIGS_QUICK = ["F_all", "F_def"]  # every configuration whose cfg-gated code the property depends on
CONFIGS_THOROUGH = ["F_all", "F_def"]
TECHNIQUE = 'static analysis: must-call (escape) and operand provenance on MIR paths, literal sequences of the attribute writer, sibling table equality sync/async writer, ElementWriter order, iterator initial state'
EXPLANATION = (
    "Escaping constructors must pass their payload through escape(): BytesText::new, both From<(&str, ..)> for Attribute "
    "impls (value escaped, key untouched); BytesCData::escaped's iterator splits at the '>' of every `]]>` so that `]]` and "
    "`>` land in different sections; attribute writer literal sequence (` `, key, `=\"`, value, `\"`) in push_attribute / "
    "push_attr with a quote the attribute iterator accepts and escape() removes; name_len kept consistent (set_name splices "
    "..name_len and reassigns it, clear_attributes truncates to it, BytesStart::new sets it to the buffer length, "
    "BytesDecl::new builds `xml version=\"` and passes 3); sync and async writer tables are identical and equal to the "
    "reference, ElementWriter helpers write Start, content, End of the same tag in that order (sync and async)."
)
ASSUMPTIONS = ["reader(writer(events)) = events for all payloads is not decided"]


def r1_escaping(ctx):
    for cfg, F in ctx.facts.items():
        b = ctx.body(F, "events::BytesText::new", "R1")
        if b is not None:
            ok = False
            for p in ctx.paths(b):
                r = ret_of(p)
                if r is not None and has_subterm(r, lambda s: call_is(s, "escape::escape") and strip_wrappers(s[3][0])[0] == "arg"):
                    ok = True
            ctx.ob("R1", "BytesText::new", ok, "BytesText::new(content) stores escape(content)", config=cfg)
        impls = [x for x in F.bodies_with("events::attributes", "From<(&'a str,", end="from") if "Attribute" in x.path]
        ctx.floor("R1", "From<(&str, ..)> for Attribute impls", len(impls), 1, config=cfg)
        for x in impls:
            okv = okk = False
            for p in ctx.paths(x):
                r = ret_of(p)
                if r is None or r[0] != "agg":
                    continue
                key, val = r[3][0], r[3][1]
                esc = [c for c in calls(p) if name_is(c[2], "escape::escape")]
                okv = bool(esc) and ends_with_fields(strip_wrappers(esc[0][3][0]), "1") and (has_subterm(val, lambda s: call_is(s, "escape::escape")) or has_subterm(val, lambda s: s[0] == "pl" and call_is(s[1], "escape::escape")))
                okk = not has_subterm(key, lambda s: call_is(s, "escape::escape")) and has_subterm(key, lambda s: s[0] == "pl" and ends_with_fields(s, "0"))
            ctx.ob("R1", "%s" % sym.short(strip_generics(x.path)), okv and okk, "the value (tuple field 1) is escaped with escape(), the key (field 0) is stored as is", config=cfg)
        esc = ctx.body(F, "events::BytesCData::escaped", "R1")
        if esc is not None:
            for p in ctx.paths(esc):
                r = ret_of(p)
                if r is None:
                    continue
                ad = F.adt("quick_xml::events::CDataIterator")
                names = [f["name"] for f in ad["variants"][0]["fields"]] if ad else []
                ok = r[0] == "agg" and len(r[3]) == len(names) == 2
                if ok:
                    vals = dict(zip(names, r[3]))
                    ok = strip_wrappers(vals.get("finished", ("?",))) == ("c", "bool", False) and has_subterm(vals.get("unprocessed", ("?",)), lambda s2: s2[0] == "arg" and s2[2] == "content")
                ctx.ob("R1", "BytesCData::escaped:initial", ok, "the splitting iterator starts unfinished over the whole content: %s" % sym.show(r, 2), config=cfg)
        it = F.bodies_with("events::CDataIterator", "Iterator", end="next")
        ctx.ob("R1", "CDataIterator::next:anchor", len(it) == 1, "found", config=cfg)
        for x in it:
            split_ok = None
            rest_ok = False
            needle = None
            for p in ctx.paths(x):
                for c in calls(p):
                    if name_is(c[2], "memchr_iter"):
                        needle = strip_wrappers(c[3][0])
                r = ret_of(p)
                if r is None or ends(p) != "ret":
                    continue
                sp = [c for c in calls(p) if name_is(c[2], "split_at")]
                ew = [c for c in calls(p) if name_is(c[2], "ends_with")]
                if sp:
                    # split exactly at the index of the '>' (so "]]" stays in this section, ">" opens the next)
                    at = sp[0][3][1]
                    at0 = strip_wrappers(at)
                    if at0[0] == "pl" and call_is(at0[1], "find") and "Iterator" in at0[1][2]:
                        # `memchr_iter(b'>', s).find(|&gt| s[..gt].ends_with(b"]]"))`: the test lives in the predicate
                        cl = [a for a in at0[1][3] if strip_wrappers(a)[0] == "closure"]
                        cb = F.closure(strip_wrappers(cl[0])[1]) if cl else None
                        good = False
                        if cb is not None:
                            for q in sym.walk(cb):
                                rq = ret_of(q)
                                if rq is not None and call_is(rq, "ends_with") and bytes_literal(rq[3][1]) == b"]]" and has_subterm(rq[3][0], lambda s2: call_is(s2, "index") and s2[3][1][0] == "agg" and s2[3][1][2] == "RangeTo" and strip_wrappers(s2[3][1][3][0])[0] in ("arg", "pl") and root_of(strip_wrappers(s2[3][1][3][0]))[1] == 2):
                                    good = True
                    else:
                        good = bool(ew) and bytes_literal(ew[0][3][1]) == b"]]" and at0[0] == "pl" and call_is(at0[1], "next")
                        pre = ew[0][3][0] if ew else None
                        good = good and pre is not None and has_subterm(pre, lambda s: call_is(s, "index") and s[3][1][0] == "agg" and s[3][1][2] == "RangeTo" and s[3][1][3][0] == at)
                    st = [e for e in p if e[0] == "store" and is_self_field(e[2], "unprocessed")]
                    good = good and len(st) == 1 and has_subterm(st[0][3], lambda s: call_is(s, "split_at"))
                    split_ok = good if split_ok is None else (split_ok and good)
                elif r[0] == "agg" and r[2] == "Some":
                    fin = [e for e in p if e[0] == "store" and is_self_field(e[2], "finished")]
                    rest_ok = bool(fin) and fin[-1][3] == ("c", "bool", True) and has_subterm(r, lambda s: s[0] == "pl" and is_self_field(s, "unprocessed"))
            # termination: once the last piece was handed out the iterator is finished for good
            fin_rows = {}
            for p in ctx.paths(x):
                r = ret_of(p)
                if r is None or ends(p) != "ret":
                    continue
                f = decision_on(p, lambda t: is_self_field(t, "finished"))
                if f is None:
                    fin_rows.setdefault("untested", set()).add(describe_ret(r, 0)[0][:1])
                else:
                    fin_rows.setdefault(f != 0, set()).add(describe_ret(r, 0)[0][:1])
            ctx.ob("R1", "CDataIterator::next:finished", fin_rows.get(True) == {("None",)} and "untested" not in fin_rows and bool(fin_rows.get(False)) and ("None",) not in fin_rows.get(False, set()),
                   "every call tests `finished`: set -> None, clear -> a section (the last one sets the flag): %s" % {str(k): sorted(v) for k, v in fin_rows.items()}, config=cfg)
            ctx.ob("R1", "CDataIterator::next:split", split_ok is True and needle == ("c", "u8", 62), "a section ends right before the '>' of a `]]>` (unprocessed[..gt] ends with `]]`, split_at(gt)), the rest starts with '>'", config=cfg)
            ctx.ob("R1", "CDataIterator::next:rest", rest_ok, "the remainder is yielded once and the iterator finishes", config=cfg)


def r2_attr_literals(ctx):
    for cfg, F in ctx.facts.items():
        pa = ctx.body(F, "events::BytesStart::push_attribute", "R2")
        pt = ctx.body(F, "events::BytesStart::push_attr", "R2")
        seq = []
        for b in (pa, pt):
            if b is None:
                continue
            for p in ctx.paths(b):
                if ends(p) != "ret":
                    continue
                for c in calls(p):
                    nm = sym.short(c[2]).split("::")[-1]
                    if nm == "push" and len(c[3]) == 2:
                        seq.append(chr(c[3][1][2]) if c[3][1][0] == "c" else "{?}")
                    elif nm == "extend_from_slice":
                        lit = bytes_literal(c[3][1])
                        if lit is not None:
                            seq.append(lit.decode())
                        elif has_subterm(c[3][1], lambda s: s[0] == "pl" and ends_with_fields(s, "key")):
                            seq.append("{key}")
                        elif has_subterm(c[3][1], lambda s: s[0] == "pl" and ends_with_fields(s, "value")):
                            seq.append("{value}")
                        else:
                            seq.append("{?}")
                    elif nm == "push_attr":
                        seq.append("->")
                break
        ctx.ob("R2", "push_attribute:sequence", seq == [" ", "->", "{key}", '="', "{value}", '"'], "an attribute is appended as ` key=\"value\"`: %s" % seq, config=cfg)
        esc = F.closure("quick_xml::escape::escape::{closure#0}")
        if esc is not None:
            ctx.ob("R2", "quote-escaped", 34 in valueset(esc), "escape() removes the quote character the writer uses", config=cfg)


def r3_name_len(ctx):
    for cfg, F in ctx.facts.items():
        b = ctx.body(F, "events::BytesStart::set_name", "R3")
        if b is not None:
            for p in ctx.paths(b):
                if ends(p) != "ret":
                    continue
                sp = [c for c in calls(p) if name_is(c[2], "splice")]
                st = [e for e in p if e[0] == "store" and is_self_field(e[2], "name_len")]
                ok = len(sp) == 1 and sp[0][3][1][0] == "agg" and sp[0][3][1][2] == "RangeTo" and is_self_field(sp[0][3][1][3][0], "name_len")
                ok = ok and len(st) == 1 and call_is(st[0][3], "len") and strip_wrappers(st[0][3][3][0])[0] == "arg"
                ctx.ob("R3", "set_name", ok, "set_name replaces buf[..name_len] and then sets name_len = name.len()", config=cfg)
        b = ctx.body(F, "events::BytesStart::clear_attributes", "R3")
        if b is not None:
            ok = any(name_is(c[2], "truncate") and is_self_field(c[3][1], "name_len") for p in ctx.paths(b) for c in calls(p))
            ctx.ob("R3", "clear_attributes", ok, "clear_attributes truncates the buffer to name_len", config=cfg)
        b = ctx.body(F, "events::BytesStart::new", "R3")
        if b is not None:
            ok = False
            for p in ctx.paths(b):
                r = ret_of(p)
                if r is not None and r[0] == "agg":
                    buf, nl = r[3][0], r[3][1]
                    ok = call_is(nl, "len") and call_is(buf, "str_cow_to_bytes")
            ctx.ob("R3", "BytesStart::new", ok, "new(name): name_len = buffer length", config=cfg)
        b = ctx.body(F, "events::BytesDecl::new", "R3")
        if b is not None:
            ok = False
            first = None
            for p in ctx.paths(b):
                ps = [c for c in calls(p) if name_is(c[2], "push_str")]
                if ps:
                    first = bytes_literal(ps[0][3][1])
                r = ret_of(p)
                if r is not None and has_subterm(r, lambda s: call_is(s, "from_content") and s[3][1] == ("c", "usize", 3)):
                    ok = True
            ctx.ob("R3", "BytesDecl::new", ok and first == b'xml version="', "the declaration content starts with `xml version=\"` and its name length is 3: first literal %s" % first, config=cfg)
        b = ctx.body(F, "events::BytesPI::new", "R3")
        if b is not None:
            ok = any(has_subterm(ret_of(p), lambda s: call_is(s, "name_len")) for p in ctx.paths(b) if ret_of(p) is not None)
            ctx.ob("R3", "BytesPI::new", ok, "the PI target length is computed with name_len", config=cfg)


def r4_same_table(ctx):
    for cfg, F in ctx.facts.items():
        b = ctx.body(F, "writer::Writer::write_event", "R4")
        sync_rows = wt.check_table(ctx, "R4", F, cfg, b, "write_event") if b is not None else None
        if "async-tokio" in F.features:
            a = F.bodies_matching(r"writer::async_tokio::<impl quick_xml::writer::Writer<W>>::write_event_async::\{closure#0\}$")
            for x in a:
                arows = wt.check_table(ctx, "R4", F, cfg, x, "write_event_async")
                ctx.ob("R4", "sync==async", arows == sync_rows, "the asynchronous writer's table equals the synchronous one", config=cfg)
            ctx.ob("R4", "write_event_async:anchor", len(a) == 1, "found", config=cfg)
        # ElementWriter helpers
        evs = F.variants("events::Event")
        helpers = {"write_text_content": "Text", "write_cdata_content": "CData", "write_pi_content": "PI", "write_empty": None, "write_inner_content": "closure"}
        found = 0
        for body in F.bodies:
            bp = strip_generics(body.path)
            if "ElementWriter" not in bp:
                continue
            base = bp.replace("::{closure#0}", "").split("::")[-1]
            key = base.replace("_async", "")
            if key not in helpers:
                continue
            if F.fns.get(bp, {}).get("async"):
                continue  # the outer fn of an async fn only builds the coroutine
            found += 1
            for p in ctx.paths(body, max_paths=60000):
                r = ret_of(p)
                if r is None or ends(p) != "ret" or describe_ret(r, 0)[0][:1] != ("Ok",):
                    continue
                seq = []
                for c in calls(p):
                    nm = sym.short(c[2]).split("::")[-1]
                    if nm in ("write_event", "write_event_async"):
                        a0 = c[3][1]
                        seq.append(a0[2] if a0[0] == "agg" else "?")
                        if a0[0] == "agg" and a0[2] in ("Start", "End", "Empty"):
                            if not has_subterm(a0, lambda s: s[0] == "pl" and ends_with_fields(s, "start_tag")):
                                seq[-1] += "(other tag)"
                    elif nm in ("call_once",) or isinstance(c[2], tuple):
                        seq.append("closure")
                want = ["Empty"] if helpers[key] is None else ["Start", helpers[key], "End"]
                ctx.ob("R4", "ElementWriter::%s" % base, seq == want, "writes %s of the element's own tag in this order: %s" % (want, seq), config=cfg)
        ctx.floor("R4", "ElementWriter helper bodies", found, 10 if "async-tokio" in F.features else 5, config=cfg)


def r5_whole_writes(ctx):
    """what the writer emits reaches the sink completely: sinks are written only through write_all (C13 R5)"""
    import c13
    n0 = len(ctx.obs)
    c13.r5_no_partial_write(ctx)
    for o in ctx.obs[n0:]:
        o["site"] = "sink:" + o["site"]
        o["rule"] = "R5"

def r6_escape_sets(ctx):
    """the writer's escaping is escape::_escape: which bytes it selects and what it replaces them with (C10 R1
    re-evaluated; selecting by anything but the byte itself, e.g. a truncated char, rewrites non-ASCII text)"""
    import c10
    n0 = len(ctx.obs)
    c10.r1_sets(ctx)
    for o in ctx.obs[n0:]:
        o["site"] = "escape:" + o["site"]
        o["rule"] = "R6"


def r7_decoder_keeps_everything(ctx):
    """reading a payload back goes through Decoder::decode: it must decode all of the bytes it is given (C17 R7
    re-evaluated: a payload starting with U+FEFF keeps it)"""
    import c17
    c17.r7_decodes_all_of_it(ctx, "R7")


RULES = [("R1", r1_escaping), ("R2", r2_attr_literals), ("R3", r3_name_len), ("R4", r4_same_table), ("R5", r5_whole_writes), ("R6", r6_escape_sets), ("R7", r7_decoder_keeps_everything)]
