"""C20 — Overlapped lists: interleaving siblings does not change the result."""
from engine import *
from facts import strip_generics, callee_of
import sym, json
import c07

CONFIGS_QUICK = ["F_all", "F_nool"]  # every configuration whose cfg-gated code the property depends on
CONFIGS_THOROUGH = ["F_all", "F_nool"]
TECHNIQUE = 'static analysis: who-may-grow rule and guard extraction for the skipped-event queue, checkpoint/Drop pairing, replay-order call sequences, loop decision table of skip(), sequence-access table; compile-fail witness, read_to_end table with loop-carried depth, compared-operand-is-the-name rule, filter polarity, who-may-call table for the ends of the replay queue'
EXPLANATION = (
    "Limit discipline of the skipped-event queue: write.push_back occurs only in skip_event, after the test "
    "`write.len() >= limit` -> TooManyEvents(limit), the limit is read nowhere else and the comparison is monotone in the "
    "limit; checkpoint/replay pairing: every skip_checkpoint() result is stored in a MapValueSeqAccess whose Drop calls "
    "start_replay with it, skip_checkpoint is #[must_use]; replay order: in both branches of start_replay the skipped events "
    "are placed before the already queued ones; next() serves the queue before the live reader; subtree skipping table of "
    "skip() (every event of the subtree goes through skip_event, same-name depth counting, Eof ends the loop); sequence "
    "access table of MapValueSeqAccess::next_element_seed (non-matching Start -> skip and continue with the feature, end of "
    "list without; End -> None without consuming; Eof -> missed end; Text / matching Start -> consume)."
)
ASSUMPTIONS = ["equality of the deserialized value for all interleavings is not decided", "VecDeque append/split_off/pop_front semantics (std)"]


def checkpoint_is_queue_length(ctx, F):
    b = F.body("de::Deserializer::skip_checkpoint")
    if b is None:
        return False
    rs = [ret_of(p) for p in ctx.paths(b) if ends(p) == "ret"]
    return bool(rs) and all(r is not None and call_is(strip_wrappers(r), "len") and ends_with_fields(strip_wrappers(r)[3][0], "write") for r in rs)


def r1_limit(ctx):
    for cfg, F in ctx.facts.items():
        if "overlapped-lists" not in F.features:
            ctx.ob("R1", "not-compiled", True, "no skipped-event queue without the overlapped-lists feature (the struct has no `write`/`limit` fields)", config=cfg)
            a = F.adt("de::Deserializer")
            fl = [f["name"] for f in a["variants"][0]["fields"]] if a else []
            ctx.ob("R1", "no-queue-fields", "write" not in fl and "limit" not in fl, "fields: %s" % fl, config=cfg)
            continue
        pushers = []
        for b in F.bodies:
            if "src/de/" not in b.span(b.j["span"])["root"]:
                continue
            for i, t in b.calls():
                d = callee_of(t)[0] or ""
                if name_is(d, "push_back", "push_front", "extend", "append", "insert") and "VecDeque" in d:
                    pushers.append((sym.short(strip_generics(b.path)), sym.short(d).split("::")[-1], b, i))
        wr = []
        for fn, op, b, i in pushers:
            for p in ctx.paths(b, max_paths=60000):
                for c in calls(p):
                    if c[1] == i and ends_with_fields(c[3][0], "write"):
                        wr.append((fn, op))
        ws = set(wr)
        ctx.ob("R1", "write:who-may-grow", ws == {("Deserializer::skip_event", "push_back"), ("Deserializer::start_replay", "append")},
               "the skipped-event queue grows only in skip_event (append in start_replay moves events out of it): %s" % sorted(ws), config=cfg)
        b = ctx.body(F, "de::Deserializer::skip_event", "R1")
        if b is not None:
            for p in ctx.paths(b):
                if ends(p) != "ret":
                    continue
                lim = decision_on(p, lambda t: t[0] == "discr" and is_self_field(t[1], "limit"))
                cmp = [e for e in p if e[0] == "switch" and e[2][0] == "bin" and e[2][1] in ("Ge", "Gt", "Le", "Lt", "Eq")]
                pushed = any(name_is(c[2], "push_back") for c in calls(p))
                r = ret_of(p)
                rv = describe_ret(r, 1)[0]
                if lim == 1:
                    c0 = cmp[0] if cmp else None
                    qlen = c0 is not None and ((call_is(c0[2][2], "len") and ends_with_fields(c0[2][2][3][0], "write")) or (call_is(c0[2][2], "skip_checkpoint") and checkpoint_is_queue_length(ctx, F)))
                    mono = c0 is not None and c0[2][1] == "Ge" and qlen and call_is(c0[2][3], "get")
                    over = c0 is not None and c0[3] != 0
                    if over:
                        ctx.ob("R1", "skip_event[limit,full]", mono and rv[:2] == ("Err", "TooManyEvents") and not pushed, "queue length >= limit -> Err(TooManyEvents(limit)) and nothing is queued; the test is `write.len() >= limit` (monotone in the limit)", config=cfg)
                    else:
                        ctx.ob("R1", "skip_event[limit,room]", mono and rv[:1] == ("Ok",) and pushed, "below the limit the event is queued", config=cfg)
                else:
                    ctx.ob("R1", "skip_event[no-limit]", rv[:1] == ("Ok",) and pushed and not cmp, "without a limit every skipped event is queued", config=cfg)
        # the limit is read nowhere else
        readers = set()
        for body in F.bodies:
            if is_derive(body):
                continue
            for i, blk in enumerate(body.blocks):
                s = str(blk["stmts"]) + str(blk["term"])
                if "'n': 'limit', 'of': 'quick_xml::de::Deserializer'" in s:
                    readers.add(sym.short(strip_generics(body.path)))
        ctx.ob("R1", "limit:readers", readers <= {"Deserializer::skip_event", "Deserializer::event_buffer_size", "Deserializer::new"}, "the limit is consulted only in skip_event (set in event_buffer_size / new): %s" % sorted(readers), config=cfg)


def r2_pairing(ctx):
    for cfg, F in ctx.facts.items():
        if "overlapped-lists" not in F.features:
            ctx.ob("R2", "not-compiled", True, "feature off", config=cfg)
            continue
        f = F.fns.get("quick_xml::de::Deserializer::skip_checkpoint")
        ctx.ob("R2", "skip_checkpoint:must_use", bool(f) and f["must_use"], "skip_checkpoint is #[must_use]", config=cfg)
        callers = callers_of(F, "skip_checkpoint")
        n = 0
        for b, i, t in callers:
            for p in ctx.paths(b, max_paths=60000):
                hit = [c for c in calls(p) if c[1] == i]
                if not hit:
                    continue
                T = ("call", hit[0][1], hit[0][2], hit[0][3])
                stored = any(a[0] == "agg" and a[1].endswith("MapValueSeqAccess") and T in a[3] for c in calls(p) for a in c[3])
                only_compared = any(e[0] == "switch" and e[2][0] == "bin" and has_subterm(e[2], lambda s2: s2 == T) for e in p) and \
                    not any(e[0] == "store" and has_subterm(e[3], lambda s2: s2 == T) for e in p) and not any(has_subterm(a, lambda s2: s2 == T) for c in calls(p) if c[1] != i for a in c[3])
                if only_compared:
                    break   # the queue length read for the limit test: not a checkpoint kept for a later replay
                n += 1
                ctx.ob("R2", "%s:checkpoint-stored" % sym.short(strip_generics(b.path)), stored, "the checkpoint goes into a MapValueSeqAccess (whose Drop replays)", config=cfg)
                break
        ctx.floor("R2", "skip_checkpoint call sites", n, 1, config=cfg)
        drops = F.bodies_with("de::map::MapValueSeqAccess", "Drop", end="drop")
        ok = False
        for b in drops:
            for p in ctx.paths(b):
                for c in calls(p):
                    if name_is(c[2], "start_replay") and is_self_field(c[3][1], "checkpoint"):
                        ok = True
        ctx.ob("R2", "MapValueSeqAccess::drop", ok, "Drop calls start_replay(self.checkpoint)", config=cfg)


def r3_replay_order(ctx):
    for cfg, F in ctx.facts.items():
        if "overlapped-lists" not in F.features:
            ctx.ob("R3", "not-compiled", True, "feature off", config=cfg)
            continue
        b = ctx.body(F, "de::Deserializer::start_replay", "R3")
        if b is not None:
            for p in ctx.paths(b):
                if ends(p) != "ret":
                    continue
                zsw = [e for e in p if e[0] == "switch" and e[2][0] == "bin" and e[2][1] in ("Eq", "Ne") and e[2][3] == ("c", "usize", 0)]
                zero = None if not zsw else (1 if ((zsw[0][3] != 0) == (zsw[0][2][1] == "Eq")) else 0)
                ap = [c for c in calls(p) if name_is(c[2], "append")]
                okap = len(ap) == 1 and ends_with_fields(ap[0][3][1], "read")
                if zero not in (0, None):
                    sw = [c for c in calls(p) if name_is(c[2], "swap")]
                    ok = okap and ends_with_fields(ap[0][3][0], "write") and len(sw) == 1 and {fields_of(strip_wrappers(sw[0][3][0]) if strip_wrappers(sw[0][3][0])[0] == "pl" else sw[0][3][0][1])[-1:], fields_of(sw[0][3][1][1] if sw[0][3][1][0] == "ref" else sw[0][3][1])[-1:]} == {("read",), ("write",)}
                    ctx.ob("R3", "start_replay[checkpoint=0]", ok, "write.append(&mut read) then swap(read, write): skipped events first, then the queued ones", config=cfg)
                else:
                    so = [c for c in calls(p) if name_is(c[2], "split_off")]
                    st = [e for e in p if e[0] == "store" and is_self_field(e[2], "read")]
                    ok = okap and len(so) == 1 and ends_with_fields(so[0][3][0], "write") and has_subterm(ap[0][3][0], lambda s: call_is(s, "split_off")) and len(st) == 1 and has_subterm(st[0][3], lambda s: call_is(s, "split_off"))
                    ctx.ob("R3", "start_replay[checkpoint>0]", ok, "the tail write[checkpoint..] gets the queued events appended and becomes the new read queue", config=cfg)
        n = ctx.body(F, "de::Deserializer::next", "R3")
        if n is not None:
            for p in ctx.paths(n):
                if ends(p) != "ret":
                    continue
                q = decision_on(p, lambda t: t[0] == "discr" and call_is(t[1], "pop_front"))
                live = any(name_is(c[2], "next") and "XmlReader" in c[2] for c in calls(p))
                ctx.ob("R3", "next[queue=%s]" % ("some" if q == 1 else "empty"), live == (q != 1), "next() serves the replay queue first and touches the live reader only when it is empty", config=cfg)


def depth_is_zero(evs):
    """How the path answered "is the nesting counter 0?": `depth == 0` or `match depth { 0 => .., _ => .. }`; None if not asked."""
    for e in evs:
        if e[0] != "switch":
            continue
        t = e[2]
        if t[0] == "bin" and t[1] == "Eq" and t[2][0] == "phi" and strip_wrappers(t[3])[0] == "c" and strip_wrappers(t[3])[2] == 0:
            return e[3] != 0
        if strip_wrappers(t)[0] == "phi" and e[4] and 0 in e[4] and "int" not in str(type(None)):
            if isinstance(e[3], int) and not isinstance(e[3], bool):
                return e[3] == 0
            return False
    return None


def r4_skip_table(ctx):
    for cfg, F in ctx.facts.items():
        if "overlapped-lists" not in F.features:
            ctx.ob("R4", "not-compiled", True, "feature off", config=cfg)
            continue
        b = ctx.body(F, "de::Deserializer::skip", "R4")
        if b is None:
            continue
        rows = {}
        unsk = 0
        for p in ctx.paths(b, max_paths=60000):
            hd = [i for i, e in enumerate(p) if e[0] == "head"]
            if not hd:
                continue
            body = p[hd[0]:]
            nx = [e for e in body if e[0] == "switch" and c07.is_next_discr(e[2])]
            if not nx:
                continue
            # the variant of the event: the first test that pinned it down (later `matches!` on the same event only re-ask)
            ints = [e[3] for e in nx if isinstance(e[3], int)]
            v = ints[0] if ints else nx[-1][3]
            var = c07.devar(F, v) if isinstance(v, int) else "other"
            same = None
            for e in body:
                if e[0] == "switch" and e[2][0] == "call" and name_is(e[2][2], "eq", "ne"):
                    same = name_is(e[2][2], "eq") == (e[3] != 0)
                    # what is compared must be the element *name* of the event (BytesStart derefs to the whole tag content)
                    if not has_subterm(e[2], lambda s2: call_is(s2, "BytesStart::name", "BytesEnd::name") and has_subterm(s2, lambda s3: call_is(s3, "next", "pop_front", "next_impl"))):
                        same = "not-a-name-comparison"
            dz = depth_is_zero(body)
            d0 = None if dz is None else (1 if dz else 0)
            skipped = len([c for c in calls(body) if name_is(c[2], "skip_event")])
            r = ret_of(p)
            if r is not None and ((r[0] == "call" and name_is(r[2], "from_residual")) or is_error_exit(p)):
                continue
            last = p[-1]
            if last[0] == "loop":
                cc = carried_counter(last)
                dv = cc[1] if cc else last[2].get("depth")
                out = "continue" if dv is None or dv[0] == "phi" else ("depth+1" if dv[1] == "Add" else "depth-1" if dv[1] == "Sub" else "?")
            elif last[0] == "ret":
                out = "stop"
            else:
                continue
            rows[(var, same, None if d0 is None else d0 != 0)] = (out, skipped)
            if skipped != 1:
                unsk += 1
        want = {("Start", True, None): ("depth+1", 1), ("Start", False, None): ("continue", 1), ("End", True, True): ("stop", 1), ("End", True, False): ("depth-1", 1),
                ("End", False, None): ("continue", 1), ("Eof", None, None): ("stop", 1), ("other", None, None): ("continue", 1)}
        for k, w in want.items():
            ctx.ob("R4", "skip:row%s" % list(k), rows.get(k) == w, "event %s (same name %s, depth==0 %s) must %s and be buffered through skip_event exactly once; extracted %s" % (k[0], k[1], k[2], w[0], rows.get(k)), config=cfg)
        ctx.ob("R4", "skip:all-buffered", unsk == 0 and len(rows) >= 6, "every event of the skipped subtree goes through skip_event (rows %d)" % len(rows), config=cfg)


def r7_limit_is_only_a_number(ctx):
    """raising the limit never turns success into failure: the configured limit is stored and compared, never turned into
    an allocation (`reserve(limit)` overflows for limits meant as "unlimited")"""
    for cfg, F in ctx.facts.items():
        if "overlapped-lists" not in F.features:
            ctx.ob("R7", "not-compiled", True, "feature off", config=cfg)
            continue
        b = ctx.body(F, "de::Deserializer::event_buffer_size", "R7")
        if b is None:
            continue
        cs = sorted({sym.short(callee_of(t)[0] or "?").split("::")[-1] for _, t in b.calls()})
        alloc = [c for c in cs if c in ("reserve", "reserve_exact", "with_capacity", "resize", "try_reserve", "shrink_to", "extend")]
        stores = 0
        for p in ctx.paths(b):
            stores = max(stores, len([e for e in p if e[0] == "store" and is_self_field(e[2], "limit")]))
        ctx.ob("R7", "event_buffer_size:plain-setter", not alloc and stores == 1, "event_buffer_size stores the limit and allocates nothing (calls: %s)" % cs, config=cfg)


def r6_read_to_end(ctx):
    """Deserializer::read_to_end (overlapped lists): buffered events are dropped with a depth count of same-named
    Start/End; when the buffer runs dry the reader skips one nesting level per round, and every round that does not
    finish must lower the depth (otherwise the loop reads past the element until Eof)."""
    for cfg, F in ctx.facts.items():
        if "overlapped-lists" not in F.features:
            ctx.ob("R6", "not-compiled", True, "feature off", config=cfg)
            continue
        b = ctx.body(F, "de::Deserializer::read_to_end", "R6")
        if b is None:
            continue
        vs = F.variants("de::DeEvent")
        rows = {}
        for p in ctx.paths(b):
            if ends(p) not in ("loop", "ret") or is_error_exit(p):
                continue
            popped = decision_on(p, lambda t: t[0] == "discr" and call_is(t[1], "pop_front"))
            ev = decision_on(p, lambda t: t[0] == "discr" and t[1][0] == "pl" and call_is(t[1][1], "pop_front"))
            same = None
            for e in p:
                if e[0] == "switch" and e[2][0] == "call" and name_is(e[2][2], "eq", "ne"):
                    same = name_is(e[2][2], "eq") == (e[3] != 0)
                    if not has_subterm(e[2], lambda s2: call_is(s2, "BytesStart::name", "BytesEnd::name") and has_subterm(s2, lambda s3: call_is(s3, "next", "pop_front", "next_impl"))):
                        same = "not-a-name-comparison"
            d0 = decision_on(p, lambda t: t[0] == "bin" and t[1] == "Eq" and strip_wrappers(t[2])[0] == "phi" and strip_wrappers(t[3]) == ("c", strip_wrappers(t[3])[1], 0))
            if ends(p) == "loop":
                cc = carried_counter(p[-1])
                dv = cc[1] if cc else p[-1][2].get("depth")
                out = "same" if dv is None or dv[0] == "phi" else ("depth+1" if dv[0] == "bin" and dv[1] == "Add" and strip_wrappers(dv[3])[2] == 1 else "depth-1" if dv[0] == "bin" and dv[1] == "Sub" and strip_wrappers(dv[3])[2] == 1 else "?")
            else:
                out = "stop"
            skipped = any(name_is(c[2], "XmlReader::read_to_end") for c in calls(p))
            # counted spelling of the reader rounds: `for _ in 0..=depth { reader.read_to_end(name)? } return Ok(())`
            # = depth+1 rounds, one nesting level each, then stop
            counted = [c for c in calls(p) if name_is(c[2], "RangeInclusive::new", "RangeInclusive<Idx>::new") and len(c[3]) == 2 and strip_wrappers(c[3][0]) == ("c", strip_wrappers(c[3][0])[1], 0)
                       and has_subterm(c[3][1], lambda s2: s2[0] == "phi")]
            if popped == 0 and counted:
                exhausted = any(e[0] == "switch" and e[2][0] == "discr" and call_is(strip_wrappers(e[2][1]), "next") and has_subterm(e[2][1], lambda s2: s2[0] == "phi" or call_is(s2, "into_iter")) and e[3] == 0 for e in p)
                if ends(p) == "loop" and skipped and not exhausted:
                    rows.setdefault(("reader", None, False), set()).add(("depth-1", True))
                    continue
                if ends(p) == "ret" and exhausted:
                    rows.setdefault(("reader", None, True), set()).add(("stop", True))
                    continue
            src = "reader" if popped == 0 else (vs[ev] if isinstance(ev, int) and ev < len(vs) else "other")
            rows.setdefault((src, same, None if d0 is None else d0 != 0), set()).add((out, skipped))
        want = {("reader", None, True): {("stop", True)}, ("reader", None, False): {("depth-1", True)},
                ("Start", True, None): {("depth+1", False)}, ("Start", False, None): {("same", False)},
                ("End", True, True): {("stop", False)}, ("End", True, False): {("depth-1", False)}, ("End", False, None): {("same", False)},
                ("other", None, None): {("same", False)}}
        for k, w in want.items():
            ctx.ob("R6", "read_to_end:row%s" % list(k), rows.get(k) == w, "source %s (same name %s, depth==0 %s) must %s; extracted %s" % (k[0], k[1], k[2], sorted(w), sorted(rows.get(k, []))), config=cfg)
        extra = sorted(k for k in rows if k not in want)
        ctx.ob("R6", "read_to_end:no-other-rows", not extra, "no other outcome: %s" % extra, config=cfg)


def r5_seq_table(ctx):
    for cfg, F in ctx.facts.items():
        bs = F.bodies_with("de::map::MapValueSeqAccess", "SeqAccess", end="next_element_seed")
        ctx.ob("R5", "next_element_seed:anchor", len(bs) == 1, "found", config=cfg)
        for b in bs:
            rows = {}
            suited = {}
            for p in ctx.paths(b, max_paths=60000):
                pk = decision_on(p, c07.is_peek_discr)
                if not isinstance(pk, int):
                    continue
                var = c07.devar(F, pk)
                suit = decision_on(p, lambda t: has_subterm(t, lambda s: call_is(s, "is_suitable")) and t[0] in ("pl", "call") and "branch" not in str(t[2] if t[0] == "call" else ""))
                last = p[-1]
                r = ret_of(p) if last[0] == "ret" else None
                if r is not None and ((r[0] == "call" and name_is(r[2], "from_residual")) or is_error_exit(p)):
                    continue
                cs = [sym.short(c[2]).split("::")[-1] for c in calls(p) if name_is(c[2], "skip", "next", "deserialize", "missed_end") and ("Deserializer" in c[2] or "missed_end" in c[2] or "DeserializeSeed" in c[2])]
                if last[0] == "loop":
                    out = "continue"
                elif r is not None:
                    rv = describe_ret(r, 1)[0]
                    out = "None" if rv[:2] == ("Ok", "None") else ("Err" if rv[:1] == ("Err",) else "item")
                else:
                    continue
                rows.setdefault(var, set()).add((out, tuple(cs)))
                if var == "Start" and suit is not None:
                    suited.setdefault(suit != 0, set()).add(out)
            feat = "overlapped-lists" in F.features
            e = rows.get("End", set())
            ctx.ob("R5", "seq[End]", e == {("None", ())}, "an End event ends the list without being consumed: %s" % sorted(e), config=cfg)
            e = rows.get("Eof", set())
            ctx.ob("R5", "seq[Eof]", bool(e) and all(o == "Err" and "missed_end" in c for o, c in e), "Eof inside the element is a missed-end error: %s" % sorted(e), config=cfg)
            e = rows.get("Text", set())
            ctx.ob("R5", "seq[Text]", bool(e) and all(o == "item" and c[:1] == ("next",) for o, c in e if o != "Err"), "a text item is consumed and deserialized: %s" % sorted(e), config=cfg)
            e = rows.get("Start", set())
            skipped = {(o, c) for o, c in e if "skip" in c}
            ended = {(o, c) for o, c in e if o == "None"}
            items = {(o, c) for o, c in e if o == "item"}
            if feat:
                ctx.ob("R5", "seq[Start]", bool(skipped) and all(o == "continue" for o, c in skipped) and not ended and bool(items), "with overlapped lists a non-matching element is skipped (buffered) and the search continues; a matching one is consumed: %s" % sorted(e), config=cfg)
            else:
                ctx.ob("R5", "seq[Start]", not skipped and bool(ended) and bool(items), "without the feature a non-matching element ends the list: %s" % sorted(e), config=cfg)
            ctx.ob("R5", "seq[Start]:filter-polarity", suited.get(True, set()) - {"Err"} == {"item"} and "item" not in suited.get(False, {"?"}) and bool(suited.get(False)),
                   "an element is deserialized as an item exactly when the filter says it is suitable; otherwise it is skipped (overlapped lists) or ends the list: suitable -> %s, not suitable -> %s" % (sorted(suited.get(True, [])), sorted(suited.get(False, []))), config=cfg)


FRONT_OPS = ("is_empty", "len", "front", "pop_front", "push_front")


def r8_replay_queue_is_consumed_at_the_front(ctx):
    """`read` holds the events to hand out next, oldest first: peek / next / last_peeked look at and take from the
    FRONT, and a freshly read event enters an empty queue.  Any access to the other end (back, push_back, pop_back,
    indexing) sees or moves a different event as soon as a replay has put more than one event there."""
    for cfg, F in ctx.facts.items():
        if "overlapped-lists" not in F.features:
            ctx.ob("R8", "not-compiled", True, "the replay queue exists only with overlapped-lists", config=cfg)
            continue
        n = 0
        for b in F.bodies:
            bp = strip_generics(b.path)
            if "quick_xml::de::" not in bp or is_derive(b) or "::tests" in bp:
                continue
            if not any('"n": "read", "of": "quick_xml::de::Deserializer"' in json.dumps(st) for _, st in b.stmts()):
                continue
            seen = set()
            for p in ctx.paths(b):
                for c in calls(p):
                    if isinstance(c[1], tuple) or not isinstance(c[2], str) or "VecDeque" not in c[2] or not c[3]:
                        continue
                    recv = strip_wrappers(c[3][0])
                    if not (recv[0] == "pl" and ends_with_fields(recv, "read")):
                        continue
                    op = c[2].rsplit("::", 1)[-1]
                    if (c[1], op) in seen:
                        continue
                    seen.add((c[1], op))
                    n += 1
                    ctx.ob("R8", "%s:read.%s" % (sym.short(bp), op), op in FRONT_OPS, "the replay queue is inspected and consumed at its front only (allowed: %s)" % ", ".join(FRONT_OPS), loc=b.loc(c[4]), config=cfg)
        ctx.floor("R8", "operations on the replay queue", n, 5, config=cfg)


RULES = [("R1", r1_limit), ("R2", r2_pairing), ("R3", r3_replay_order), ("R4", r4_skip_table), ("R5", r5_seq_table), ("R6", r6_read_to_end), ("R7", r7_limit_is_only_a_number), ("R8", r8_replay_queue_is_consumed_at_the_front)]


def THOROUGH_EXTRA(ctx):
    return run_witnesses(ctx, "W", ['W2ConfigImmutable'])
