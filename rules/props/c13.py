"""C13 — The serializer emits only well-formed XML that carries the data unchanged."""
from engine import *
from facts import strip_generics, callee_of
import sym

CONFIGS_QUICK = ["F_all", "F_nool"]  # every configuration whose cfg-gated code the property depends on
CONFIGS_THOROUGH = ["F_all", "F_nool"]
TECHNIQUE = 'static analysis: sink discipline (taint classes of every fmt::Write operand in se::*), validated-type typestate for XmlName with exact interval sets of the name classes, tag-pairing sequences, QuoteTarget inheritance, crate-wide no-partial-write who-may-call rule, compile-fail witness, write_fmt counted as a sink'
EXPLANATION = (
    "Sink discipline of the serde serializer: every fmt::Write::write_str/write_char call in se::* and every call of the "
    "three write_str wrappers is enumerated and its operand classified by its symbolic source (literal, field 0 of the "
    "validated XmlName type, result of escape_item/escape_list, to_string() of a primitive number, the indentation "
    "buffer, the private children buffer); anything else is reported. XmlName is a validated type: constructed only in "
    "XmlName::try_from, whose every Ok path must pass the NameStartChar test on the first character and the NameChar "
    "test on the rest; both character classes are extracted as exact interval sets and compared with the XML 1.1 "
    "productions. Tag pairing of write_wrapped / write_empty / Struct::end per Ok path; attribute quoting uses '\"' "
    "together with the DoubleQAttr escape target."
)
ASSUMPTIONS = ["Display of primitive numbers and bool never produces markup characters", "user Serialize impls can only reach the writer through the Serializer API (writer fields are not pub outside the crate)"]

NAME_START = [(0x3A, 0x3A), (0x41, 0x5A), (0x5F, 0x5F), (0x61, 0x7A), (0xC0, 0xD6), (0xD8, 0xF6), (0xF8, 0x2FF), (0x370, 0x37D),
              (0x37F, 0x1FFF), (0x200C, 0x200D), (0x2070, 0x218F), (0x2C00, 0x2FEF), (0x3001, 0xD7FF), (0xF900, 0xFDCF),
              (0xFDF0, 0xFFFD), (0x10000, 0xEFFFF)]  # XML 1.1 [4] NameStartChar
NAME_EXTRA = [(0x2D, 0x2E), (0x30, 0x39), (0xB7, 0xB7), (0x300, 0x36F), (0x203F, 0x2040)]  # XML 1.1 [4a] NameChar minus NameStartChar

NUMERIC = {"i8", "i16", "i32", "i64", "i128", "u8", "u16", "u32", "u64", "u128", "f32", "f64", "isize", "usize", "bool", "char"}
WRAPPERS = ("QNameSerializer::write_str", "AtomicSerializer::write_str", "SimpleTypeSerializer::write_str")


def norm(iv):
    iv = sorted(iv)
    out = []
    for a, b in iv:
        if out and a <= out[-1][1] + 1:
            out[-1][1] = max(out[-1][1], b)
        else:
            out.append([a, b])
    return [tuple(x) for x in out]


def is_direct_sink(path):
    # write!(w, ..) is Write::write_fmt: formatted text reaches the output without passing any of the accepted classes
    return isinstance(path, str) and name_is(path, "Write::write_str", "Write::write_char", "Write>::write_str", "Write>::write_char", "Write::write_fmt", "Write>::write_fmt") and "Formatter" not in path


def classify(t, in_wrapper, body_path, fnargs_of):
    """Source class of a sink operand, or None if it is not an accepted one."""
    t0 = strip_wrappers(t)
    if t0[0] == "c":
        return "literal"
    if t0[0] == "call" and name_is(t0[2], "deref", "as_str", "as_ref", "borrow"):
        return classify(t0[3][0], in_wrapper, body_path, fnargs_of)
    if t0[0] == "pl":
        last = [e for e in t0[2] if isinstance(e, tuple) and e[0] == "f"]
        if last and last[-1][2] == "0" and last[-1][3] == "quick_xml::se::XmlName":
            return "XmlName.0"
        if last and last[-1][2] == "children" and last[-1][3] == "quick_xml::se::element::Struct":
            return "children-buffer"
        # `?` on a Result: look at what was tried
        inner = tried(t0)
        if inner is not None and inner[0] == "call":
            return classify(inner, in_wrapper, body_path, fnargs_of)
    if t0[0] == "call" and name_is(t0[2], "escape_item", "escape_list"):
        return "escaped"
    if t0[0] == "call" and name_is(t0[2], "to_string"):
        ty = fnargs_of.get(t0[1], "").strip("[]")
        if ty in NUMERIC:
            return "number.to_string"
        return None
    if t0[0] == "call" and name_is(t0[2], "from_utf8") and has_subterm(t0, lambda s: call_is(s, "Indentation::current")):
        return "indentation"
    if t0[0] == "arg" and in_wrapper:
        return "wrapper-parameter"
    return None


def r1_sinks(ctx):
    for cfg, F in ctx.facts.items():
        direct = 0
        wrapped = 0
        for b in F.bodies:
            bp = strip_generics(b.path)
            if "quick_xml::se::" not in bp or is_derive(b):
                continue
            has = any(is_direct_sink(callee_of(t)[0] or "") or name_is(callee_of(t)[0] or "", *WRAPPERS) for _, t in b.calls())
            if not has:
                continue
            in_wrapper = name_is(bp, *WRAPPERS)
            seen = set()
            try:
                paths = ctx.paths(b, max_paths=6000)
            except sym.PathBudget:
                ctx.ob("R1", "%s:budget" % sym.short(bp), False, "too many paths to classify the sinks of this body (fail closed)", config=cfg)
                continue
            for p in paths:
                fnargs_of = {c[1]: c[5] for c in calls(p)}
                for c in calls(p):
                    ds = is_direct_sink(c[2])
                    ws = name_is(c[2], *WRAPPERS)
                    if not (ds or ws):
                        continue
                    op = c[3][1]
                    key = (c[1], op)
                    if key in seen:
                        continue
                    seen.add(key)
                    cls = classify(op, in_wrapper, bp, fnargs_of)
                    if ds:
                        direct += 1
                    else:
                        wrapped += 1
                    if ws and cls is None and name_is(c[2], "QNameSerializer::write_str") and strip_wrappers(op)[0] == "arg":
                        cls = "key-string (validated later by XmlName::try_from, see R1:qname)"
                    site = "%s:%s(%s)" % (sym.short(bp), sym.short(c[2]), sym.show(op, 3)[:80])
                    ctx.ob("R1", site, cls is not None,
                           "operand of a serializer sink must be a literal, XmlName.0, escape_item/escape_list(..), a number's to_string(), the indentation or the children buffer; it is %s [%s]" % (sym.show(op, 3)[:120], cls),
                           loc=b.loc(c[4]), config=cfg)
        ctx.floor("R1", "direct fmt::Write sinks in se::*", direct, 34, config=cfg)
        ctx.floor("R1", "wrapper sink call sites", wrapped, 45, config=cfg)
        # QNameSerializer writes into a private String that only reaches Struct::write_field
        n = 0
        for b in F.bodies:
            if "quick_xml::se::" not in b.path:
                continue
            for _, st in b.stmts():
                r = st["r"]
                if r["k"] == "agg" and r.get("adt") == "quick_xml::se::key::QNameSerializer":
                    n += 1
                    ok = False
                    for p in ctx.paths(b):
                        for c in calls(p):
                            if name_is(c[2], "serialize"):
                                for a in c[3]:
                                    if a[0] == "agg" and a[1].endswith("QNameSerializer"):
                                        ok = ok or call_is(a[3][0], "String::new")
                    ctx.ob("R1", "qname:%s:writer" % sym.short(strip_generics(b.path)), ok, "QNameSerializer must write into a fresh private String (its content is validated by XmlName::try_from in write_field)", config=cfg)
        ctx.floor("R1", "QNameSerializer constructions", n, 1, config=cfg)
        wf = F.bodies_with("se::element::Struct", end="write_field")
        for b in wf:
            for p in ctx.paths(b):
                if ends(p) != "ret":
                    continue
                attr = [c for c in calls(p) if name_is(c[2], "write_attribute")]
                elem = [c for c in calls(p) if name_is(c[2], "write_element")]
                if attr:
                    ctx.ob("R1", "qname:write_field:attribute", has_subterm(attr[0][3][1], lambda s: call_is(s, "XmlName::try_from")), "attribute keys go through XmlName::try_from", config=cfg)
        ctx.ob("R1", "qname:write_field:anchor", len(wf) == 1, "Struct::write_field found", config=cfg)
        we = F.bodies_with("se::element::Struct", end="write_element")
        for b in we:
            n_el = 0
            for p in ctx.paths(b):
                for c in calls(p):
                    for a in c[3]:
                        if a[0] == "agg" and a[1].endswith("ElementSerializer"):
                            n_el += 1
                            ctx.ob("R1", "qname:write_element:element-key", has_subterm(a[3][1] if a[3][0][0] != "call" else a[3][0], lambda s: call_is(s, "XmlName::try_from")) or any(has_subterm(x, lambda s: call_is(s, "XmlName::try_from")) for x in a[3]),
                                   "element keys go through XmlName::try_from", config=cfg)
            ctx.ob("R1", "qname:write_element:anchor", n_el >= 1, "ElementSerializer construction found in write_element", config=cfg)


def loop_scan(ctx, b, p):
    """Loop spelling of the scan: the Ok path leaves a loop over `name.chars()` only because the iterator is
    exhausted, and every way round that loop has tested the item with is_xml11_name_char and found it true."""
    def over_chars(t):
        return has_subterm(t, lambda s: call_is(s, "chars") and has_subterm(s, lambda a: a[0] == "arg"))
    heads = []
    cur = None
    for e in p:
        if e[0] == "head":
            cur = e[1]
        elif e[0] == "switch" and cur is not None and e[2][0] == "discr" and call_is(e[2][1], "next") and e[3] == 0 \
                and has_subterm(e[2][1], lambda s: s[0] == "phi" and s[1] == cur and over_chars(s)):
            heads.append(cur)
    for h in heads:
        rounds = [q for q in ctx.paths(b) if ends(q) == "loop" and q[-1][1] == h]
        if not rounds:
            continue
        good = True
        for q in rounds:
            item = None
            seen_head = False
            tested = False
            for e in q:
                if e[0] == "head" and e[1] == h:
                    seen_head = True
                elif seen_head and e[0] == "call" and name_is(e[2], "next") and item is None:
                    item = e
                elif seen_head and e[0] == "switch" and call_is(e[2], "is_xml11_name_char") and e[3] not in (None, 0) and item is not None \
                        and has_subterm(e[2][3][0], lambda s: s[0] == "call" and s[1] == item[1]):
                    tested = True
            good = good and tested
        if good:
            return True
    return False


def r2_xmlname(ctx):
    for cfg, F in ctx.facts.items():
        # who may construct
        n = 0
        for b in F.bodies:
            for _, st in b.stmts():
                r = st["r"]
                if r["k"] == "agg" and r.get("adt") == "quick_xml::se::XmlName":
                    n += 1
                    owner = b
                    hops = 0
                    while not strip_generics(owner.path).endswith("se::XmlName::try_from") and sole_caller(F, owner) is not None and hops < 2:
                        owner = sole_caller(F, owner)   # a private helper of the validating constructor is a piece of it
                        hops += 1
                    ctx.ob("R2", "construct:%s" % sym.short(strip_generics(b.path)), strip_generics(owner.path).endswith("se::XmlName::try_from"),
                           "XmlName(..) may only be built by the validating constructor", loc=b.loc(st["s"]), config=cfg)
        ctx.floor("R2", "XmlName constructions", n, 1, config=cfg)
        b = ctx.body(F, "se::XmlName::try_from", "R2")
        if b is None:
            continue
        oks = 0
        for p in ctx.paths(b):
            r = ret_of(p)
            if r is None or describe_ret(r, 0)[0][:1] != ("Ok",):
                continue
            oks += 1
            start = [c for c in calls(p) if name_is(c[2], "is_xml11_name_start_char")]
            first = decision_on(p, lambda t: t[0] == "discr" and call_is(t[1], "next") and has_subterm(t[1], lambda s: call_is(s, "chars")))
            rest = [c for c in calls(p) if name_is(c[2], "matches", "all", "any", "find")]
            start_ok = bool(start) and has_subterm(start[0][3][0], lambda s: call_is(s, "chars")) and decision_on(p, lambda t: call_is(t, "is_xml11_name_start_char")) not in (None, 0)
            site = "try_from:Ok[first-char=%s]" % ("Some" if first == 1 else "None" if first is not None else "?")
            ctx.ob("R2", site + ":start-char", start_ok,
                   "every Ok path must have tested the first character with is_xml11_name_start_char (an empty name has no first character and is not a Name); calls on this path: %s" % call_names(p), config=cfg)
            rest_ok = False
            for c in rest:
                for a in c[3]:
                    if a[0] == "closure":
                        cb = F.closure(a[1])
                        if cb is not None and any(name_is(callee_of(t)[0] or "", "is_xml11_name_char") for _, t in cb.calls()):
                            rest_ok = True
            if not rest_ok:
                rest_ok = loop_scan(ctx, b, p)
            ctx.ob("R2", site + ":name-chars", rest_ok, "every Ok path must have scanned all characters with is_xml11_name_char", config=cfg)
            ctx.ob("R2", site + ":returns-arg", has_subterm(r, lambda s: s[0] == "arg" and s[2] == "name"), "the validated string is the one wrapped", config=cfg)
        ctx.floor("R2", "Ok paths of XmlName::try_from", oks, 1, config=cfg)
        # the closure negates is_xml11_name_char; the loop rejects on the first hit
        # (the predicate is the closure handed to the scan on the Ok paths, wherever it was written)
        cbs = {a[1] for p in ctx.paths(b) for c in calls(p) if name_is(c[2], "matches", "all", "any", "find") for a in c[3] if a[0] == "closure"}
        cb = F.closure(sorted(cbs)[0]) if cbs else F.body("se::XmlName::try_from::{closure#0}")
        if cb is not None:
            neg = False
            for p in sym.walk(cb):
                r = ret_of(p)
                if r is not None and r[0] == "un" and r[1] == "Not" and call_is(r[2], "is_xml11_name_char"):
                    neg = True
            ctx.ob("R2", "try_from:closure", neg, "the scanning predicate is !is_xml11_name_char(ch)", config=cfg)
        # character classes
        bs = F.body("se::is_xml11_name_start_char")
        bc = F.body("se::is_xml11_name_char")
        if bs is None or bc is None:
            ctx.ob("R2", "anchor:name-classes", False, "anchor-missing: is_xml11_name_start_char / is_xml11_name_char", config=cfg)
            continue
        iv = valueset_intervals(bs)
        ctx.ob("R2", "NameStartChar", norm(iv) == norm(NAME_START), "accepted start characters %s must equal XML 1.1 NameStartChar" % [(hex(a), hex(b)) for a, b in iv], config=cfg)
        iv2 = valueset_intervals(bc, callee=lambda n: (lambda v: in_intervals(iv, v)) if name_is(n, "is_xml11_name_start_char") else None, extra_consts=[x for ab in iv for x in ab])
        ctx.ob("R2", "NameChar", norm(iv2) == norm(NAME_START + NAME_EXTRA), "accepted name characters %s must equal XML 1.1 NameChar" % [(hex(a), hex(b)) for a, b in iv2], config=cfg)
        for ch in (0x20, 0x3C, 0x3E, 0x26, 0x22, 0x27, 0x2F, 0x3D, 0x09, 0x0A, 0x0D):
            if in_intervals(iv2, ch):
                ctx.ob("R2", "NameChar:markup[%d]" % ch, False, "a markup/space character is accepted inside names", config=cfg)


def lit_of(t):
    t0 = strip_wrappers(t)
    if t0[0] == "c":
        if t0[1] == "char":
            return chr(char_value(t0[2]))
        b = bytes_literal(t0)
        return b.decode() if b is not None else None
    if t0[0] == "pl":
        last = [e for e in t0[2] if isinstance(e, tuple) and e[0] == "f"]
        if last and last[-1][3] == "quick_xml::se::XmlName":
            return "{name:%s}" % sym.show(t0[1])
        if last and last[-1][2] == "children":
            return "{children}"
    if t0[0] == "call" and name_is(t0[2], "deref"):
        return lit_of(t0[3][0])
    return "{?}"


def out_seq(p):
    """Literal sequence written on a path, with nested serializations marked."""
    out = []
    for c in calls(p):
        if is_direct_sink(c[2]):
            out.append(lit_of(c[3][1]))
        elif name_is(c[2], "write_indent"):
            out.append("{indent}")
        elif name_is(c[2], "serialize", "call_once", "call_mut", "call") or (isinstance(c[2], tuple)):
            out.append("{content}")
    return out


def collapse(seq):
    s = "".join(x for x in seq)
    return s


def r3_pairing(ctx):
    import re
    for cfg, F in ctx.facts.items():
        for fn, shapes in (("se::content::ContentSerializer::write_wrapped", [r"^(\{indent\})?<(\{name:[^}]*\})>\{content\}(\{indent\})?</\2>$"]),
                           ("se::content::ContentSerializer::write_empty", [r"^(\{indent\})?<(\{name:[^}]*\})/>$", r"^(\{indent\})?<(\{name:[^}]*\})></\2>$"])):
            b = ctx.body(F, fn, "R3")
            if b is None:
                continue
            n = 0
            for p in ctx.paths(b):
                r = ret_of(p)
                if r is None or describe_ret(r, 0)[0][:1] != ("Ok",):
                    continue
                n += 1
                s = collapse(out_seq(p))
                ctx.ob("R3", "%s:Ok[%s]" % (fn.split("::")[-1], re.sub(r"\{name:[^}]*\}", "{name}", s)), any(re.match(x, s) for x in shapes),
                       "every Ok path must emit a properly paired tag around the content with the same XmlName: emits %s" % s, config=cfg)
            ctx.floor("R3", "Ok paths of " + fn.split("::")[-1], n, 1, config=cfg)
        # Struct: serialize_struct writes `<name`, end() closes it
        for b in F.bodies_with("se::element::ElementSerializer", "Serializer", end="serialize_struct"):
            for p in ctx.paths(b):
                r = ret_of(p)
                if r is None or describe_ret(r, 0)[0][:1] != ("Ok",):
                    continue
                s = collapse(out_seq(p))
                ctx.ob("R3", "serialize_struct:open", re.match(r"^(\{indent\})?<\{name:[^}]*\}$", s) is not None, "the struct start writes `<name` (attributes follow): %s" % s, config=cfg)
        ends_ = F.bodies_with("se::element::Struct", "SerializeStruct", end="end")
        n = 0
        for b in ends_:
            for p in ctx.paths(b):
                r = ret_of(p)
                if r is None or describe_ret(r, 0)[0][:1] != ("Ok",):
                    continue
                n += 1
                s = collapse(out_seq(p))
                ok = s in ("/>",) or re.match(r"^></\{name:[^}]*\}>$", s) or re.match(r"^>\{children\}(\{indent\})?</\{name:[^}]*\}>$", s)
                ctx.ob("R3", "Struct::end:Ok[%s]" % re.sub(r"\{name:[^}]*\}", "{name}", s), bool(ok), "the struct end must close the open tag: `/>`, `></name>` or `>children</name>`; emits %s" % s, config=cfg)
        ctx.floor("R3", "Ok paths of Struct::end", n, 3, config=cfg)
        # attributes: ` key="` value `"` with the DoubleQAttr target
        for b in F.bodies_with("se::element::Struct", end="write_attribute"):
            for p in ctx.paths(b):
                r = ret_of(p)
                if r is None or describe_ret(r, 0)[0][:1] != ("Ok",):
                    continue
                s = collapse(out_seq(p))
                tgt = None
                for c in calls(p):
                    for a in c[3]:
                        if a[0] == "agg" and a[1].endswith("SimpleTypeSerializer"):
                            tgt = a[3][1]
                ctx.ob("R3", "write_attribute:shape", re.match(r'^ \{name:[^}]*\}="\{content\}"$', s) is not None, "attribute is written as ` key=\"value\"`: %s" % s, config=cfg)
                ctx.ob("R3", "write_attribute:target", tgt is not None and tgt[0] == "agg" and tgt[2] == "DoubleQAttr", "the value is escaped for the quote that is written ('\"' -> DoubleQAttr)", config=cfg)


def r4_quote_target(ctx):
    """the quoting context (text / double-quoted attribute) is decided once and inherited by every derived serializer"""
    import quote
    for cfg, F in ctx.facts.items():
        quote.check(ctx, "R4", F, cfg)


def r5_no_partial_write(ctx):
    """Output reaches an io::Write / AsyncWrite sink only through write_all: a bare write() may accept fewer bytes than
    offered and the rest of a tag would silently be lost.  Expected count of write() calls: zero (positive control:
    write_all is found)."""
    import re
    for cfg, F in ctx.facts.items():
        bad = []
        good = 0
        for b in F.bodies:
            if is_derive(b) or "::tests" in b.path:
                continue
            for _, t in b.calls():
                d = callee_of(t)[0] or ""
                if re.search(r"(io::Write|AsyncWriteExt)::write_all$", d):
                    good += 1
                elif re.search(r"(io::Write|AsyncWriteExt|AsyncWrite)::(write|write_vectored|poll_write)$", d):
                    bad.append((b, t, d))
        for b, t, d in bad:
            ctx.ob("R5", "partial-write:%s" % sym.short(strip_generics(b.path)), False, "%s may write only part of the buffer; its count must not be ignored: use write_all" % d.split("::")[-1], loc=b.loc(t["s"]), config=cfg)
        ctx.ob("R5", "no-partial-write", not bad and good >= 3, "every sink write in the crate is write_all (%d call sites), none is a bare write()" % good, config=cfg)

RULES = [("R1", r1_sinks), ("R2", r2_xmlname), ("R3", r3_pairing), ("R4", r4_quote_target), ("R5", r5_no_partial_write)]


def THOROUGH_EXTRA(ctx):
    return run_witnesses(ctx, "W", ['W3XmlNamePrivate'])
