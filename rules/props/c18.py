"""C18 — Source I/O faults are transparent (interrupts) or reported once (errors)."""
from engine import *
import sym

CONFIGS_QUICK = ["F_all", "F_noenc", "F_def"]  # every configuration whose cfg-gated code the property depends on
CONFIGS_THOROUGH = ["F_all", "F_noenc", "F_def"]
TECHNIQUE = 'static analysis: per-refill error discipline on MIR paths (kind compared with Interrupted, retry reaches the same call with no side effect, error returned built from that error), propagation rule in the event loop, otherwise-edge error branches'
EXPLANATION = (
    "At every refill (`fill_buf`) call site of the buffered XmlSource helpers, sync and async: the Err edge "
    "must compare io::Error::kind() with ErrorKind::Interrupted, on equality reach the same fill_buf call again "
    "with no consume/extend/store in between, otherwise return a value built from that very error after adding "
    "the running byte count to the position; in the event loop and read_until_close every Err coming from a source "
    "helper is returned as (or wrapped into Error::Io of) that error with no emit_* call and no Ok construction on the way."
)
ASSUMPTIONS = ["BufRead::fill_buf has no side effect when it returns Err (std contract)"]

SYNC_PREFIX = r"reader::buffered_reader::<impl quick_xml::reader::XmlSource<.*> for R>::"
ASYNC_PREFIX = r"reader::async_tokio::TokioAdapter::"
HELPERS = ["remove_utf8_bom", "detect_encoding", "read_text", "read_with", "read_bang_element", "skip_whitespace", "peek_one"]
PLUMBING = ("into_future", "Pin::new_unchecked", "get_context", "Future>::poll", "Pin::new")


def unawait(t):
    return t[1] if t[0] == "await" else t


def is_fill(t):
    t = unawait(t)
    return t[0] == "call" and name_is(t[2], "fill_buf")


def helper_bodies(F):
    out = []
    for h in HELPERS:
        for b in F.bodies_matching(SYNC_PREFIX + h + "$"):
            out.append((h, "sync", b))
        for b in F.bodies_matching(ASYNC_PREFIX + h + r"::\{closure#0\}$"):
            out.append((h, "async", b))
    return out


def first_call_from(body, bb, limit=12):
    """Block of the first call reached from bb through straight-line code (no branching)."""
    seen = 0
    while seen < limit:
        t = body.blocks[bb]["term"]
        if t["k"] == "call":
            return bb
        ss = body.succs(bb)
        if len(ss) != 1:
            return None
        bb = ss[0]
        seen += 1
    return None


def real_events(path, start):
    """Side-effecting events after index start (plumbing of `.await` removed)."""
    out = []
    for e in path[start:]:
        if e[0] == "call" and name_is(e[2], *PLUMBING):
            continue
        if e[0] in ("call", "store"):
            out.append(e)
    return out


def r1_refill(ctx):
    for cfg, F in ctx.facts.items():
        hb = helper_bodies(F)
        sites = 0
        for h, kind, b in hb:
            ctx.analysed_fns.add(b.path)
            paths = ctx.paths(b)
            fill_bbs = set()
            accum = False  # does this helper add a running count to *position?
            for p in paths:
                for e in p:
                    if e[0] == "store" and root_of(e[2])[0] == "arg" and root_of(e[2])[2] == "position":
                        accum = True
            checked_err = {}
            for p in paths:
                for i, e in enumerate(p):
                    if e[0] != "call" or not name_is(e[2], "fill_buf"):
                        continue
                    bb = e[1]
                    fill_bbs.add(bb)
                    T = ("call", e[1], e[2], e[3])
                    # decision on the result of this call
                    d = None
                    di = None
                    for j in range(i + 1, len(p)):
                        x = p[j]
                        if x[0] == "switch" and x[2][0] == "discr" and unawait(x[2][1]) == T:
                            d, di = x[3], j
                            break
                        if x[0] == "call" and name_is(x[2], "fill_buf"):
                            break
                    if d != 1:
                        continue
                    site = "%s[%s]:fill_buf" % (h, kind)
                    loc = b.loc(e[4])
                    st = checked_err.setdefault(bb, {"kind": False, "retry": 0, "ret": 0})
                    # (a) the error kind is inspected and compared with Interrupted
                    kd = None
                    for j in range(di + 1, len(p)):
                        x = p[j]
                        if x[0] == "switch" and has_subterm(x[2], lambda s: s[0] == "call" and name_is(s[2], "Error::kind")) and has_subterm(x[2], lambda s: s[0] == "agg" and s[2] == "Interrupted"):
                            isne = x[2][0] == "call" and name_is(x[2][2], "ne")
                            kd = ((x[3] != 0) != isne, j)
                            break
                    if kd is None:
                        ctx.ob("R1", site + ":kind-tested", False, "the Err edge of this refill does not compare io::Error::kind() with ErrorKind::Interrupted", loc=loc, config=cfg)
                        continue
                    st["kind"] = True
                    interrupted, kj = kd
                    tail = real_events(p, kj + 1)
                    if interrupted:
                        st["retry"] += 1
                        endk = p[-1]
                        ok = endk[0] == "loop" and not tail and first_call_from(b, endk[1]) == bb
                        ctx.ob("R1", site + ":retry", ok,
                               "on Interrupted the same fill_buf must be called again with no call/store in between (events before the retry: %s; path ends %s)" % ([sym.short(x[2]) if x[0] == "call" else "store " + sym.show(x[2]) for x in tail], endk[0]), loc=loc, config=cfg)
                    else:
                        st["ret"] += 1
                        r = ret_of(p)
                        errpl = lambda s: s[0] == "pl" and unawait(s[1]) == T and any(isinstance(x, tuple) and x[0] == "d" and x[2] == "Err" for x in s[2])
                        ok = p[-1][0] == "ret" and r is not None and has_subterm(r, errpl)
                        rv, _ = describe_ret(r, 1) if r is not None else ((), None)
                        ok = ok and rv[:1] == ("Err",)
                        ctx.ob("R1", site + ":returned", ok, "any other error must be returned, built from that same error (returns %s)" % (sym.show(r, 2) if r is not None else p[-1][0]), loc=loc, config=cfg)
                        bad = [sym.short(x[2]) for x in tail if x[0] == "call" and name_is(x[2], "consume", "extend_from_slice", "push", "extend")]
                        ctx.ob("R1", site + ":no-side-effect", not bad, "nothing is consumed or copied on the error exit (%s)" % bad, loc=loc, config=cfg)
                        if accum and h in ("read_text", "read_with", "read_bang_element"):
                            pos = [x for x in tail if x[0] == "store" and root_of(x[2])[0] == "arg" and root_of(x[2])[2] == "position"]
                            ctx.ob("R1", site + ":position", len(pos) == 1, "the bytes consumed before the fault are added to the position on the error exit (stores to *position: %d)" % len(pos), loc=loc, config=cfg)
            for bb, st in checked_err.items():
                sites += 1
                ctx.ob("R1", "%s[%s]:fill_buf:both-arms" % (h, kind), st["kind"] and st["retry"] >= 1 and st["ret"] >= 1,
                       "refill site must have an Interrupted→retry arm and an other-error→return arm (retry paths %d, return paths %d)" % (st["retry"], st["ret"]), config=cfg)
            ctx.ob("R1", "%s[%s]:has-refill" % (h, kind), len(fill_bbs) >= 1 and len(checked_err) == len(fill_bbs),
                   "every fill_buf call site of the helper has its Err edge analysed (%d call sites, %d analysed)" % (len(fill_bbs), len(checked_err)), config=cfg)
        nsync = len([1 for h, k, b in hb if k == "sync"])
        nasync = len([1 for h, k, b in hb if k == "async"])
        ctx.floor("R1", "sync buffered helpers", nsync, 6, config=cfg)
        if "async-tokio" in F.features:
            ctx.floor("R1", "async buffered helpers", nasync, 6, config=cfg)
        ctx.floor("R1", "refill sites", sites, 6 if "async-tokio" not in F.features else 12, config=cfg)


SOURCE_CALLS = ("read_text", "read_with", "read_bang_element", "skip_whitespace", "peek_one", "detect_encoding", "remove_utf8_bom")


def r2_propagation(ctx):
    """Callers of the helpers: an Err result leaves through `return Err(..that error..)`, never through an emitter."""
    for cfg, F in ctx.facts.items():
        bodies = []
        for pat in (r"reader::Reader::read_event_impl$", r"reader::Reader::read_until_close$",
                    r"reader::async_tokio::<impl quick_xml::reader::Reader<R>>::read_event_into_async::\{closure#0\}$",
                    r"reader::async_tokio::<impl quick_xml::reader::Reader<R>>::read_until_close_async::\{closure#0\}$"):
            bodies += F.bodies_matching(pat)
        n = 0
        for b in bodies:
            paths = ctx.paths(b)
            name = sym.short(b.path.replace("::{closure#0}", ""))
            for p in paths:
                # walk decisions: find `discr(X)` where X is (await of) a source call and the branch is the error one
                for i, e in enumerate(p):
                    if e[0] != "switch":
                        continue
                    t = e[2]
                    if t[0] != "discr":
                        continue
                    src = strip_try(t[1])
                    c = unawait(src)
                    if c[0] != "call" or not name_is(c[2], *SOURCE_CALLS):
                        continue
                    callee = [h for h in SOURCE_CALLS if name_is(c[2], h)][0]
                    # which branch is the error branch?
                    is_try = src is not t[1]
                    if callee == "read_text":
                        # enum ReadTextResult: the Err variant index
                        vs = F.variants("reader::ReadTextResult")
                        errv = vs.index("Err") if vs and "Err" in vs else None
                    else:
                        errv = 1  # Result::Err / ControlFlow::Break
                    # the error branch: the Err value itself, or the otherwise edge of a match that does not list Err
                    if not (e[3] == errv or (e[3] == "else" and errv is not None and errv not in e[4])):
                        continue
                    n += 1
                    site = "%s:%s:Err" % (name, callee)
                    tail = p[i + 1:]
                    emits = [sym.short(x[2]) for x in tail if x[0] == "call" and (name_is(x[2].split("::")[-1] if isinstance(x[2], str) else "", ) or (isinstance(x[2], str) and x[2].split("::")[-1].startswith("emit_")))]
                    r = ret_of(p)
                    carries = r is not None and has_subterm(r, lambda s: unawait(s) == c or (s[0] == "pl" and unawait(strip_try(s[1])) == c))
                    rv, _ = describe_ret(r, 2) if r is not None else ((), None)
                    isret = p[-1][0] == "ret"
                    shape_ok = rv[:1] == ("Err",) or (r is not None and r[0] == "call" and name_is(r[2], "from_residual"))
                    not_syntax = "Syntax" not in rv and "Eof" not in rv
                    ctx.ob("R2", site, isret and carries and shape_ok and not emits and not_syntax,
                           "an Err from the source helper must be returned as that error (Error::Io / unchanged), no emitter called: returns %s, emitters %s" % (sym.show(r, 2) if r is not None else p[-1][0], emits), loc=b.loc(e_span(p, c)), config=cfg)
        ctx.floor("R2", "helper-error edges in the event loop", n, 9 if "async-tokio" not in F.features else 18, config=cfg)


def strip_try(t):
    """`x?` is `match Try::branch(x) { Continue(v) => v, Break(r) => return from_residual(r) }`"""
    if t[0] == "call" and name_is(t[2], "branch") and t[3]:
        return t[3][0]
    return t


def e_span(p, c):
    for e in p:
        if e[0] == "call" and e[1] == c[1]:
            return e[4]
    return 0


RULES = [("R1", r1_refill), ("R2", r2_propagation)]
