"""C19 — Indentation adds only whitespace between markup and never touches content."""
from engine import *
from facts import strip_generics, callee_of
import sym
import writer_tab as wt

CONFIGS_QUICK = ["F_all", "F_def"]  # every configuration whose cfg-gated code the property depends on
CONFIGS_THOROUGH = ["F_all", "F_def"]
TECHNIQUE = 'static analysis: writer flag/indent table extraction (sync+async), output sequences of write_wrapped*, who-writes-newline, depth bookkeeping must-call rules, value sets of WriteResult predicates, effect-vs-classification rule for WriteResult on text-writing paths, flag-guard rule for every call of se::Indent::write_indent'
EXPLANATION = (
    "Writer flag table (sync and async): should_line_break is set false exactly after Text and CData and true after every "
    "other event; the only code writing `\\n` + current indent is write_wrapped*/write_indent*, in the former only under "
    "should_line_break, always before the opening delimiter; Text and CData bypass the indenting path and write their "
    "payload operand unchanged; depth bookkeeping: grow after the Start tag is written, shrink before the End tag, "
    "shrink saturating, grow/additional call ensure() before the slice is taken, ensure/new fill with indent_char only; "
    "serde side: WriteResult::allow_indent = {Element, Nothing}, is_text = {Text, SensitiveText}; Struct::write_element "
    "flag updates; the indent text comes only from Indent::write_indent."
)
ASSUMPTIONS = ["equality of read-back events is not decided"]


def r1_writer(ctx):
    for cfg, F in ctx.facts.items():
        b = ctx.body(F, "writer::Writer::write_event", "R1")
        if b is not None:
            wt.check_table(ctx, "R1", F, cfg, b, "write_event")
        if "async-tokio" in F.features:
            a = F.bodies_matching(r"writer::async_tokio::<impl quick_xml::writer::Writer<W>>::write_event_async::\{closure#0\}$")
            ctx.ob("R1", "write_event_async:anchor", len(a) == 1, "found", config=cfg)
            for x in a:
                wt.check_table(ctx, "R1", F, cfg, x, "write_event_async")
        # write_wrapped: newline + indent only under should_line_break, before the opening delimiter
        ws = [("write_wrapped", ctx.body(F, "writer::Writer::write_wrapped", "R1"))]
        if "async-tokio" in F.features:
            for x in F.bodies_matching(r"writer::async_tokio::<impl quick_xml::writer::Writer<W>>::write_wrapped_async::\{closure#0\}$"):
                ws.append(("write_wrapped_async", x))
        for nm, w in ws:
            if w is None:
                continue
            seqs = wt.wrapped_seq(ctx, F, w)
            # rows that write nothing before the delimiter are the same row whatever made them so (no indent / no break)
            plain = {s3 for i3, b3, s3 in seqs if s3[:1] != ("\n",)}
            seqs = {(i3, b3, s3) for i3, b3, s3 in seqs if s3[:1] == ("\n",)} | {(False, None, s3) for s3 in plain}
            for ind, slb, seq in seqs:
                want = ("\n", "{indent}", "{before}", "{value}", "{after}") if (ind and slb) else ("{before}", "{value}", "{after}")
                ctx.ob("R1", "%s[indent=%s,break=%s]" % (nm, ind, slb), seq == want, "output sequence must be %s, is %s" % (want, seq), config=cfg)
            ctx.ob("R1", "%s:rows" % nm, len(seqs) == 2, "exactly two behaviours: line break + indent before the delimiter, or the bare delimiter: %d rows" % len(seqs), config=cfg)
        # write_indent helpers
        wis = [("write_indent", ctx.body(F, "writer::Writer::write_indent", "R1"))]
        if "async-tokio" in F.features:
            for x in F.bodies_matching(r"writer::async_tokio::<impl quick_xml::writer::Writer<W>>::write_indent_async::\{closure#0\}$"):
                wis.append(("write_indent_async", x))
        for nm, w in wis:
            if w is not None:
                wt.check_write_indent(ctx, "R1", F, cfg, w, nm)
        # who writes "\n": only write_wrapped*, write_indent*
        nl = []
        for body in F.bodies:
            if "quick_xml::writer" not in body.path:
                continue
            if not any(name_is(callee_of(t)[0] or "", "write_all") for _, t in body.calls()):
                continue
            for p in ctx.paths(body, max_paths=60000):
                for c in calls(p):
                    if name_is(c[2], "write_all") and bytes_literal(c[3][1]) == b"\n":
                        nl.append(sym.short(strip_generics(body.path).replace("::{closure#0}", "")).split("::")[-1])
        ctx.ob("R1", "newline-writers", set(nl) <= {"write_wrapped", "write_indent", "write_wrapped_async", "write_indent_async"} and len(nl) >= 2, "line breaks are written only by write_wrapped*/write_indent*: %s" % sorted(set(nl)), config=cfg)


def r2_depth(ctx):
    for cfg, F in ctx.facts.items():
        g = ctx.body(F, "writer::Indentation::grow", "R2")
        if g is not None:
            for p in ctx.paths(g):
                if ends(p) != "ret":
                    continue
                st = [e for e in p if e[0] == "store" and is_self_field(e[2], "current_indent_len")]
                en = [c for c in calls(p) if name_is(c[2], "ensure")]
                ok = len(st) == 1 and st[0][3][0] == "bin" and st[0][3][1] == "Add" and is_self_field(st[0][3][3], "indent_size") and len(en) == 1
                ctx.ob("R2", "Indentation::grow", ok, "grow: current += indent_size, then ensure(current)", config=cfg)
        s = ctx.body(F, "writer::Indentation::shrink", "R2")
        if s is not None:
            for p in ctx.paths(s):
                st = [e for e in p if e[0] == "store" and is_self_field(e[2], "current_indent_len")]
                ok = len(st) == 1 and call_is(st[0][3], "saturating_sub") and is_self_field(st[0][3][3][1], "indent_size")
                ctx.ob("R2", "Indentation::shrink", ok, "shrink: current = current.saturating_sub(indent_size) (extra End events cannot underflow)", config=cfg)
        a = ctx.body(F, "writer::Indentation::additional", "R2")
        if a is not None:
            for p in ctx.paths(a):
                if ends(p) != "ret":
                    continue
                names = [sym.short(c[2]).split("::")[-1] for c in calls(p)]
                ok = "ensure" in names and "index" in names and names.index("ensure") < names.index("index")
                ctx.ob("R2", "Indentation::additional", ok, "ensure(new_len) precedes taking indents[..new_len]", config=cfg)
        e = ctx.body(F, "writer::Indentation::ensure", "R2")
        if e is not None:
            rs = [c for p in ctx.paths(e) for c in calls(p) if name_is(c[2], "resize")]
            ok = bool(rs) and all(is_self_field(c[3][2], "indent_char") and strip_wrappers(c[3][1])[0] == "arg" for c in rs)
            ctx.ob("R2", "Indentation::ensure", ok, "the buffer is extended with indent_char only", config=cfg)
            # the guard compares the *length* of the buffer (what current()/additional() slice), not its capacity
            for p in ctx.paths(e):
                if ends(p) != "ret":
                    continue
                resized = any(name_is(c[2], "resize") for c in calls(p))
                g = [x for x in p if x[0] == "switch" and x[2][0] == "bin" and x[2][1] in ("Lt", "Le", "Gt", "Ge")]
                okg = False
                if g:
                    t = g[0][2]
                    a, b2 = (t[2], t[3]) if t[1] in ("Lt", "Le") else (t[3], t[2])
                    okg = call_is(a, "Vec::len") and is_self_field(a[3][0], "indents") and strip_wrappers(b2)[0] == "arg" and t[1] in ("Lt", "Gt") and ((g[0][3] != 0) == resized)
                ctx.ob("R2", "Indentation::ensure:guard[%s]" % ("resize" if resized else "keep"), okg,
                       "ensure(new_len) must resize exactly when indents.len() < new_len: current()/additional() slice indents[..len] and would panic if only the capacity were large enough (guard: %s)" % (sym.show(g[0][2], 3) if g else None), config=cfg)
        n = ctx.body(F, "writer::Indentation::new", "R2")
        if n is not None:
            ok = False
            for p in ctx.paths(n):
                r = ret_of(p)
                if r is not None and r[0] == "agg":
                    fl = dict(zip(["should_line_break", "indent_char", "indent_size", "indents", "current_indent_len"], r[3]))
                    ok = fl["should_line_break"] == ("c", "bool", False) and fl["current_indent_len"] == ("c", "usize", 0) and has_subterm(fl["indents"], lambda s: s[0] == "arg" and s[2] == "indent_char")
            ctx.ob("R2", "Indentation::new", ok, "a new indentation starts at depth 0, no pending line break, buffer filled with indent_char", config=cfg)
        c = ctx.body(F, "writer::Indentation::current", "R2")
        if c is not None:
            ok = any(has_subterm(ret_of(p), lambda s: call_is(s, "index") and is_self_field(s[3][0], "indents") and has_subterm(s[3][1], lambda x: x[0] == "pl" and is_self_field(x, "current_indent_len"))) for p in ctx.paths(c) if ret_of(p) is not None)
            ctx.ob("R2", "Indentation::current", ok, "current() = indents[..current_indent_len]", config=cfg)


def r3_serde(ctx):
    for cfg, F in ctx.facts.items():
        if "serialize" not in F.features:
            ctx.ob("R3", "not-compiled", True, "serializer only with the `serialize` feature", config=cfg)
            continue
        vs = F.variants("se::WriteResult")
        for fn, want in (("allow_indent", {"Element", "Nothing"}), ("is_text", {"Text", "SensitiveText"})):
            b = ctx.body(F, "se::WriteResult::" + fn, "R3")
            if b is None:
                continue
            got = set()
            for p in ctx.paths(b):
                r = ret_of(p)
                d = decision_on(p, lambda t: t[0] == "discr")
                if r is not None and r[0] == "c" and r[2] is True:
                    if isinstance(d, int):
                        got.add(vs[d])
                    elif d == "else":
                        listed = [e[4] for e in p if e[0] == "switch"][0]
                        got |= {v for i, v in enumerate(vs) if i not in listed}
            ctx.ob("R3", "WriteResult::" + fn, got == want, "%s() is true exactly for %s: %s" % (fn, sorted(want), sorted(got)), config=cfg)
        we = F.bodies_with("se::element::Struct", end="write_element")
        for b in we:
            rows = {}
            for p in ctx.paths(b):
                r = ret_of(p)
                if r is None or describe_ret(r, 0)[0][:1] != ("Ok",):
                    continue
                keys = [e for e in p if e[0] == "switch" and e[2][0] == "call" and name_is(e[2][2], "eq") and e[3] != 0]
                which = "element"
                for e in keys:
                    if "TEXT_KEY" in str(e[2]):
                        which = "$text"
                    elif "VALUE_KEY" in str(e[2]):
                        which = "$value"
                st = [e for e in p if e[0] == "store" and is_self_field(e[2], "write_indent")]
                rows[which] = sym.show(st[-1][3], 2) if st else None
            ok = rows.get("$text") == "False" and rows.get("element") == "True" and rows.get("$value") is not None and "allow_indent" in rows.get("$value")
            ctx.ob("R3", "Struct::write_element:flags", ok, "after $text no indent, after an element indent, after $value what the content allows: %s" % rows, config=cfg)
        wi = F.bodies_with("se::Indent", end="write_indent")
        ctx.ob("R3", "Indent::write_indent:anchor", len(wi) == 1, "found", config=cfg)
        for b in wi:
            for p in ctx.paths(b):
                r = ret_of(p)
                if r is None or describe_ret(r, 0)[0][:1] != ("Ok",):
                    continue
                outs = []
                for c in calls(p):
                    if name_is(c[2], "write_char", "write_str"):
                        a = strip_wrappers(c[3][1])
                        outs.append(chr(char_value(a[2])) if a[0] == "c" and a[1] == "char" else ("{indent}" if has_subterm(c[3][1], lambda s: call_is(s, "current")) else "{?}"))
                d = decision_on(p, lambda t: t[0] == "discr" and root_of(t[1])[0] == "arg")
                ctx.ob("R3", "Indent::write_indent[%s]" % d, outs in ([], ["\n", "{indent}"]), "serde indentation writes nothing or newline + current indent: %s" % outs, config=cfg)
        cw = F.bodies_with("se::content::ContentSerializer", end="write_indent")
        for b in cw:
            for p in ctx.paths(b):
                r = ret_of(p)
                if r is None or describe_ret(r, 0)[0][:1] != ("Ok",):
                    continue
                fl = decision_on(p, lambda t: is_self_field(t, "write_indent"))
                wrote = any(name_is(c[2], "Indent::write_indent") for c in calls(p))
                cleared = any(e[0] == "store" and is_self_field(e[2], "write_indent") and e[3] == ("c", "bool", False) for e in p)
                ctx.ob("R3", "ContentSerializer::write_indent[%s]" % (fl != 0), wrote == (fl != 0) and (cleared or fl == 0), "indent is written iff the flag is set and the flag is cleared after use", config=cfg)


def r4_classification(ctx):
    """The serde serializer indents after a value only when the WriteResult it got back allows it.  A path that wrote
    bare text into element content (through a simple-type serializer) must therefore report a class for which
    allow_indent() is false; reporting Element or Nothing would let the next sibling's indent land inside the text."""
    for cfg, F in ctx.facts.items():
        if "serialize" not in F.features:
            ctx.ob("R4", "not-compiled", True, "serializer only with the `serialize` feature", config=cfg)
            continue
        vs = F.variants("se::WriteResult")
        allow = {"Element", "Nothing"}
        n = 0
        fns = 0
        for b in F.bodies:
            loc = b.loc(b.j["span"])
            if not loc.startswith("src/se/") or is_derive(b) or "::tests::" in b.path or "{closure" in b.path:
                continue
            if not any(name_is(callee_of(t)[0] or "", "into_simple_type_serializer", "into_simple_type_serializer_impl") for _, t in b.calls()):
                continue
            fn = sym.short(strip_generics(b.path))
            fns += 1
            try:
                paths = ctx.paths(b)
            except Exception:
                continue
            for p in paths:
                if ends(p) != "ret":
                    continue
                r = ret_of(p)
                rv = describe_ret(r, 1)[0]
                if rv[:1] != ("Ok",) or len(rv) < 2 or rv[1] not in vs:
                    continue
                texty = any(name_is(c[2], "into_simple_type_serializer", "into_simple_type_serializer_impl") for c in calls(p))
                # text wrapped in its own tags on the same path (write_wrapped) is an element
                def lit(a):
                    a = strip_wrappers(a)
                    if a[0] == "c" and a[1] == "char":
                        return chr(char_value(a[2]))
                    bl = bytes_literal(a)
                    return bl.decode("utf-8", "replace") if bl is not None else ""
                tagged = any(name_is(c[2], "write_char", "write_str") and len(c[3]) > 1 and "<" in lit(c[3][1]) for c in calls(p))
                if not texty or tagged:
                    continue
                n += 1
                ctx.ob("R4", "%s:text->%s" % (fn, rv[1]), rv[1] not in allow, "a path that writes bare text reports %s; allow_indent() must be false for it" % rv[1], loc=loc, config=cfg)
        ctx.floor("R4", "text-writing Ok paths with a WriteResult", n, 3, config=cfg)


def r5_indent_flag_values(ctx):
    """The serde serializer's `write_indent` flag says "an indent may precede the next thing written".  It is only ever
    set to a constant or to allow_indent() of the WriteResult just obtained (whose value set is R3's {Element, Nothing});
    any other predicate (e.g. !is_text(), true for SensitiveNothing) would let an indent follow text."""
    for cfg, F in ctx.facts.items():
        if "serialize" not in F.features:
            ctx.ob("R5", "not-compiled", True, "serializer only with the `serialize` feature", config=cfg)
            continue
        n = 0
        for b in F.bodies:
            if not b.loc(b.j["span"]).startswith("src/se/") or is_derive(b) or "::tests" in b.path:
                continue
            if not any("p" in st and any(isinstance(e, dict) and e.get("n") == "write_indent" for e in st["p"][1]) for _, st in b.stmts()):
                continue
            seen = set()
            for p in ctx.paths(b):
                for e in p:
                    if e[0] == "store" and ends_with_fields(e[2], "write_indent"):
                        v = strip_wrappers(e[3])
                        key = sym.show(v, 1)
                        if key in seen:
                            continue
                        seen.add(key)
                        n += 1
                        ok = (v[0] == "c" and isinstance(v[2], bool)) or call_is(v, "WriteResult::allow_indent")
                        ctx.ob("R5", "%s:write_indent=%s" % (sym.short(strip_generics(b.path)).split("::")[-1], key[:40]), ok, "write_indent is assigned a constant or allow_indent() of the last WriteResult, found %s" % sym.show(v, 2)[:80], loc=b.loc(e[4]), config=cfg)
        ctx.floor("R5", "assignments to write_indent", n, 5, config=cfg)

def r6_indent_guard(ctx):
    """Indent::write_indent is the only thing in the serde serializer that writes newline + indent.  Every call of it
    is governed by a `write_indent` flag (the typestate R4/R5 maintain: false after text): on the path to the call the
    flag was read and found set.  Any other guard (the shape of what was written, a length, nothing at all) can put an
    indent after text."""
    for cfg, F in ctx.facts.items():
        if "serialize" not in F.features:
            ctx.ob("R6", "not-compiled", True, "serializer only with the `serialize` feature", config=cfg)
            continue
        n = 0
        for b in F.bodies:
            if not b.loc(b.j["span"]).startswith("src/se/") or is_derive(b) or "::tests" in b.path:
                continue
            if not any(name_is(callee_of(t)[0] or "", "Indent::write_indent") for _, t in b.calls()):
                continue
            fn = sym.short(strip_generics(b.path))
            seen = set()
            for p in ctx.paths(b):
                for i, e in enumerate(p):
                    if e[0] != "call" or isinstance(e[1], tuple) or not name_is(e[2], "Indent::write_indent"):
                        continue
                    flag = [x for x in p[:i] if x[0] == "switch" and x[2][0] == "pl" and ends_with_fields(x[2], "write_indent")]
                    ok = bool(flag) and flag[-1][3] != 0
                    key = (e[1], ok)
                    if key in seen:
                        continue
                    seen.add(key)
                    n += 1
                    ctx.ob("R6", "%s:indent-call" % fn, ok, "newline + indent is written only where a write_indent flag was read and found set on the way", loc=b.loc(e[4]) if len(e) > 4 and isinstance(e[4], int) else None, config=cfg)
        ctx.floor("R6", "calls of Indent::write_indent", n, 2, config=cfg)


RULES = [("R1", r1_writer), ("R2", r2_depth), ("R3", r3_serde), ("R4", r4_classification), ("R5", r5_indent_flag_values), ("R6", r6_indent_guard)]
