"""C17 — Declared or detected encodings decode to the same content as UTF-8."""
from engine import *
from facts import strip_generics, callee_of
import sym
import c12

CONFIGS_QUICK = ["F_all", "F_noenc", "F_def"]  # every configuration whose cfg-gated code the property depends on
CONFIGS_THOROUGH = ["F_all", "F_noenc", "F_def"]
TECHNIQUE = 'static analysis: who-may-call rule for lossy decoders (expected 0, positive control), state-machine extraction for EncodingRef with guards, BOM constant table, transitions must be taken (must-store rules), decode_into guard and last-chunk flag, refill discipline of the sniffing helpers (C18) re-evaluated, minimum-input-length bound of every test before a BOM exit, sniff-before-leaving-Init order rule, decoder-input identity rule'
EXPLANATION = (
    "No lossy decoder is callable: who-may-call rule over the whole crate for the replacing entry points of encoding_rs / "
    "std (expected count 0, with a positive control on a known non-lossy callee that must be found); decode/decode_into "
    "resolve to the *_without_replacement decoders and map a malformed result to EncodingError; the EncodingRef state "
    "machine (all writes to state.encoding with their guards) equals the documented diagram: refinement only under "
    "can_be_refined() = {Implicit, BomDetected}, Explicit only from from_str, nothing leaves Explicit/XmlDetected; BOM table: "
    "detect_encoding returns for each byte-order mark a length equal to that mark's length and 0 for the BOM-less "
    "signatures, with the right encoding; both sources consume exactly that length without advancing the position; the "
    "declaration refines the encoding through Encoding::for_label on the `encoding` pseudo-attribute."
)
ASSUMPTIONS = ["encoding_rs's *_without_replacement decoders are correct", "equality of decoded content across encodings is not decided"]

LOSSY = ("Encoding::decode", "Encoding::decode_with_bom_removal", "Encoding::decode_without_bom_handling", "Decoder::decode_to_string",
         "Decoder::decode_to_utf8", "Decoder::decode_to_str", "from_utf8_lossy", "from_utf8_unchecked", "from_utf8_lossy_owned",
         # decoders that sniff a byte-order mark in the *payload* and switch encoding: a payload is not a document start
         "Encoding::new_decoder", "Encoding::new_decoder_with_bom_removal")


def r1_no_lossy(ctx):
    for cfg, F in ctx.facts.items():
        hits = []
        good = 0
        for b in F.bodies:
            for i, t in b.calls():
                d, r = callee_of(t)
                if d is None:
                    continue
                dd = strip_generics(d)
                if name_is(dd, *LOSSY) and ("encoding_rs" in dd or "std::string" in dd or "alloc::" in dd or "core::str" in dd or "std::str" in dd):
                    hits.append((b, t))
                if name_is(dd, "decode_without_bom_handling_and_without_replacement", "decode_to_string_without_replacement", "from_utf8"):
                    good += 1
        for b, t in hits:
            ctx.ob("R1", "lossy:%s:%s" % (sym.short(strip_generics(b.path)), sym.short(callee_of(t)[0])), False, "a decoder that substitutes U+FFFD for malformed input, or that re-sniffs a byte-order mark inside a payload, is called; payloads are decoded with the reader's encoding and malformed bytes must give a decoding error", loc=b.loc(t["s"]), config=cfg)
        ctx.ob("R1", "no-lossy-decoder", not hits, "no call of a replacing decoder in the crate (%d bodies scanned)" % len(F.bodies), config=cfg)
        ctx.ob("R1", "positive-control", good >= 2, "the scan sees decoder calls at all: %d calls of the non-replacing decoders / str::from_utf8 found" % good, config=cfg)
        if "encoding" in F.features:
            b = ctx.body(F, "encoding::decode", "R1")
            if b is not None:
                ok = 0
                bad = []
                for p in ctx.paths(b):
                    r = ret_of(p)
                    ran = [("call", c[1], c[2], c[3]) for c in calls(p) if name_is(c[2], "decode_without_bom_handling_and_without_replacement")]
                    if r is None or not ran:
                        continue
                    d = decision_on(p, lambda t: t[0] == "discr" and t[1] == ran[0])
                    rv = describe_ret(r, 1)[0]
                    if d == 1:
                        good = rv[:1] == ("Ok",) and has_subterm(r, lambda s: s[0] == "pl" and s[1] == ran[0])
                    elif d == 0:
                        good = rv[:2] == ("Err", "Other")
                    else:
                        good = r[0] == "call" and name_is(r[2], "ok_or", "ok_or_else") and r[3][0] == ran[0]
                    ok += 1 if good else 0
                    if not good:
                        bad.append(sym.show(r, 2)[:80])
                ctx.ob("R1", "decode", ok >= 1 and not bad, "decode(): the non-replacing decoder's Some(text) is Ok(text), its None (malformed input) is Err(EncodingError::Other): %s" % bad, config=cfg)
                # every returning path decodes with the encoding it was given; a shortcut is only sound under `encoding == UTF_8`
                for p in ctx.paths(b):
                    r = ret_of(p)
                    if r is None:
                        continue
                    through = any(name_is(c[2], "decode_without_bom_handling_and_without_replacement") and strip_wrappers(c[3][0])[0] == "arg" and strip_wrappers(c[3][0])[2] == "encoding" for c in calls(p))
                    utf8 = any(e[0] == "switch" and e[2][0] == "call" and name_is(e[2][2], "eq", "ne") and "UTF_8" in str(e[2]) and ((e[3] != 0) == name_is(e[2][2], "eq")) for e in p)
                    if not through:
                        ctx.ob("R1", "decode:shortcut", utf8 and describe_ret(r, 0)[0][:1] in (("Ok",), ("Err",)),
                               "a path of decode() returns %s without running the decoder of the given encoding; bytes that merely look like UTF-8 are different text in another encoding, so a shortcut is only sound when encoding == UTF_8" % sym.show(r, 3)[:120], config=cfg)
            b = ctx.body(F, "encoding::decode_into", "R1")
            if b is not None:
                mal = 0
                for p in ctx.paths(b):
                    r = ret_of(p)
                    if r is None:
                        continue
                    d = decision_on(p, lambda t: t[0] == "discr" and t[1][0] == "pl" and call_is(t[1][1], "decode_to_string_without_replacement"))
                    dec = [c for c in calls(p) if name_is(c[2], "decode_to_string_without_replacement")]
                    if not dec and ends(p) == "ret" and not (r[0] == "call" or is_error_exit(p)):
                        # a path that produces a result without running the decoder of the given encoding
                        utf8 = any(e[0] == "switch" and e[2][0] == "call" and name_is(e[2][2], "eq", "ne") and "UTF_8" in str(e[2]) and ((e[3] != 0) == name_is(e[2][2], "eq")) for e in p)
                        ctx.ob("R1", "decode_into:shortcut", utf8, "decode_into() may skip the decoder only when encoding == UTF_8 (str::from_utf8 is then the decoder)", config=cfg)
                    for c in dec:
                        ctx.ob("R1", "decode_into:last-chunk", len(c[3]) >= 4 and strip_wrappers(c[3][3]) == ("c", "bool", True), "the whole payload is given at once: `last` must be true so that a truncated trailing sequence is malformed", config=cfg)
                    if d is None:
                        continue
                    rv = describe_ret(r, 1)[0]
                    if rv[:1] == ("Err",):
                        mal += 1
                        ctx.ob("R1", "decode_into:malformed", rv[:2] == ("Err", "Other"), "a malformed result is Err(EncodingError::Other)", config=cfg)
                    else:
                        ctx.ob("R1", "decode_into:ok[%s]" % d, rv[:1] == ("Ok",) and d == 0, "Ok only for DecoderResult::InputEmpty (variant %s)" % d, config=cfg)
                ctx.ob("R1", "decode_into:malformed-arm", mal >= 1, "the malformed arm exists", config=cfg)
        d = ctx.body(F, "encoding::Decoder::decode", "R1")
        if d is not None:
            names = [sym.short(c[2]) for p in ctx.paths(d) for c in calls(p)]
            want = "encoding::decode" if "encoding" in F.features else "from_utf8"
            ctx.ob("R1", "Decoder::decode", any(n.endswith(want) for n in names), "Decoder::decode goes through %s: %s" % (want, sorted(set(names))), config=cfg)


def r2_machine(ctx):
    for cfg, F in ctx.facts.items():
        if "encoding" not in F.features:
            ctx.ob("R2", "not-compiled", True, "EncodingRef exists only with the `encoding` feature", config=cfg)
            continue
        vs = F.variants("reader::EncodingRef")
        b = ctx.body(F, "reader::EncodingRef::can_be_refined", "R2")
        if b is not None:
            tab = {}
            other = None
            for p in ctx.paths(b):
                sw = [e for e in p if e[0] == "switch" and e[2][0] == "discr"]
                r = ret_of(p)
                if not sw or r is None or strip_wrappers(r)[0] != "c":
                    continue
                if isinstance(sw[0][3], int):
                    tab[vs[sw[0][3]]] = strip_wrappers(r)[2]
                else:   # the `_` arm (e.g. of matches!): every variant not listed
                    other = strip_wrappers(r)[2]
                    for i in range(len(vs)):
                        if i not in (sw[0][4] or ()):
                            tab.setdefault(vs[i], other)
            ctx.ob("R2", "can_be_refined", tab == {"Implicit": True, "BomDetected": True, "Explicit": False, "XmlDetected": False}, "refinable states: %s" % tab, config=cfg)
        # all writes to a field `encoding` of ReaderState
        writes = []
        for body in F.bodies:
            if is_derive(body):
                continue
            has = any("p" in st and any(isinstance(e, dict) and e.get("n") == "encoding" and e.get("of") == "quick_xml::reader::state::ReaderState" for e in st["p"][1]) for _, st in body.stmts())
            if not has:
                continue
            for p in ctx.paths(body, max_paths=60000):
                for k, e in enumerate(p):
                    if e[0] == "store" and ends_with_fields(e[2], "encoding") and e[3][0] == "agg" and e[3][1].endswith("EncodingRef"):
                        guard = None
                        for x in p[:k]:
                            if x[0] == "switch" and call_is(x[2], "can_be_refined"):
                                guard = x[3] != 0
                        writes.append((sym.short(strip_generics(body.path).replace("::{closure#0}", "")), e[3][2], guard, e[3][3][0]))
        ws = set((a, v, g) for a, v, g, _ in writes)
        ctx.floor("R2", "writes to state.encoding", len(ws), 3, config=cfg)
        for fn, var, guard in sorted(ws, key=str):
            if var == "BomDetected":
                ok = guard is True and ("read_event_impl" in fn or "read_event_into_async" in fn)
                why = "BomDetected is written only in the Init arm of the event loop under can_be_refined()"
            elif var == "XmlDetected":
                ok = guard is True and fn.endswith("emit_question_mark")
                why = "XmlDetected is written only when a declaration is emitted, under can_be_refined()"
            elif var == "Explicit":
                ok = fn.endswith("from_str")
                why = "Explicit is set only by the from_str constructors"
            else:
                ok = False
                why = "unexpected transition"
            ctx.ob("R2", "write:%s:%s" % (fn, var), ok, "%s (guarded=%s)" % (why, guard), config=cfg)
        # the transitions must also be *taken*: a machine that never leaves Implicit ignores BOMs and declarations
        have = {(var, "emit_question_mark" if fn.endswith("emit_question_mark") else "event-loop" if ("read_event_impl" in fn or "read_event_into_async" in fn) else "from_str" if fn.endswith("from_str") else fn) for fn, var, guard in ws}
        for need in (("XmlDetected", "emit_question_mark"), ("BomDetected", "event-loop"), ("Explicit", "from_str")):
            ctx.ob("R2", "transition-present:%s" % need[0], need in have, "the %s transition is made in %s" % need, config=cfg)
        q = ctx.body(F, "reader::state::ReaderState::emit_question_mark", "R2")
        if q is not None:
            n = 0
            for p in ctx.paths(q):
                r = ret_of(p)
                if r is None or describe_ret(r, 1)[0][:2] != ("Ok", "Decl"):
                    continue
                ref = decision_on(p, lambda t: call_is(t, "can_be_refined"))
                enc = decision_on(p, lambda t: t[0] == "discr" and call_is(t[1], "encoder"))
                st = [e for e in p if e[0] == "store" and ends_with_fields(e[2], "encoding") and e[3][0] == "agg" and e[3][2] == "XmlDetected"]
                if ref not in (0, None) and enc == 1:
                    n += 1
                    ctx.ob("R2", "emit_question_mark:Decl[refinable,labelled]:refines", len(st) == 1, "a declaration with a known encoding label read in a refinable state must switch the reader to that encoding (stores of XmlDetected on the path: %d)" % len(st), config=cfg)
                else:
                    ctx.ob("R2", "emit_question_mark:Decl[refinable=%s,label=%s]:keeps" % (ref not in (0, None), enc), not st, "otherwise the encoding is left alone", config=cfg)
            ctx.floor("R2", "refining Decl paths", n, 1, config=cfg)
        for fn, var, guard, val in writes:
            if var == "Explicit":
                ctx.ob("R2", "write:%s:Explicit:utf8" % fn, "static encoding_rs::UTF_8" in str(val), "a reader built from a &str is fixed to UTF-8", config=cfg)
            if var == "XmlDetected":
                ctx.ob("R2", "write:%s:XmlDetected:from-decl" % fn, has_subterm(val, lambda s: call_is(s, "encoder")), "the refined encoding is the declaration's encoder()", config=cfg)
            if var == "BomDetected":
                ctx.ob("R2", "write:%s:BomDetected:from-sniff" % fn, has_subterm(val, lambda s: s[0] == "await" and call_is(s[1], "detect_encoding") or call_is(s, "detect_encoding")), "the detected encoding comes from detect_encoding()", config=cfg)
        d = F.bodies_with("reader::state::ReaderState", "Default", end="default")
        ok = False
        for b in d:
            for p in ctx.paths(b):
                r = ret_of(p)
                if r is not None and r[0] == "agg":
                    enc = [x for x in r[3] if x[0] == "agg" and x[1].endswith("EncodingRef")]
                    ok = bool(enc) and enc[0][2] == "Implicit" and "UTF_8" in str(enc[0][3])
        ctx.ob("R2", "initial", ok, "a new reader starts in Implicit(UTF-8)", config=cfg)


def min_len_required(e):
    """Smallest input length under which the switch event `e` (scrutinee over the input slice) takes the branch it took;
    None if the test is not a recognised length test."""
    t, v = e[2], e[3]
    if t[0] == "discr":
        c = strip_wrappers(t[1])
        if c[0] == "call" and name_is(c[2], "get", "first", "last", "split_first", "split_last", "split_at_checked", "first_chunk"):
            if v != 1:
                return 0
            if name_is(c[2], "first", "last", "split_first", "split_last"):
                return 1
            a = strip_wrappers(c[3][1]) if len(c[3]) > 1 else None
            if a is not None and a[0] == "c" and isinstance(a[2], int):
                return a[2] + 1 if name_is(c[2], "get") else a[2]
            if a is not None and a[0] == "agg" and a[2] in ("RangeTo", "Range", "RangeToInclusive"):
                end = strip_wrappers(a[3][-1])
                if end[0] == "c" and isinstance(end[2], int):
                    return end[2] + (1 if a[2] == "RangeToInclusive" else 0)
        return None
    if t[0] == "call" and name_is(t[2], "is_empty"):
        return 1 if v == 0 else 0
    if t[0] == "bin" and t[1] in ("Lt", "Le", "Gt", "Ge", "Eq", "Ne"):
        l, r = strip_wrappers(t[2]), strip_wrappers(t[3])
        op = t[1]
        if r[0] in ("len",) or call_is(r, "len"):
            l, r = r, l
            op = {"Lt": "Gt", "Le": "Ge", "Gt": "Lt", "Ge": "Le"}.get(op, op)
        if not (l[0] == "len" or call_is(l, "len")) or r[0] != "c" or not isinstance(r[2], int):
            return None
        k = r[2]
        truth = v != 0
        if op == "Lt":
            return 0 if truth else k
        if op == "Le":
            return 0 if truth else k + 1
        if op == "Gt":
            return k + 1 if truth else 0
        if op == "Ge":
            return k if truth else 0
        if op == "Eq":
            return k if truth else 0
        if op == "Ne":
            return 0 if truth else k
    return None


def r3_bom(ctx):
    for cfg, F in ctx.facts.items():
        consts = {}
        for b in F.bodies:
            if b.j["kind"].startswith("Const") and "encoding::UTF" in b.path and b.path.endswith("_BOM"):
                for p in sym.walk(b):
                    r = ret_of(p)
                    if r is not None:
                        lit = bytes_literal(r)
                        if lit is None and strip_wrappers(r)[0] == "array":
                            lit = bytes(x[2] for x in strip_wrappers(r)[1])
                        consts[b.path.split("::")[-1]] = lit
        ctx.ob("R3", "UTF8_BOM", consts.get("UTF8_BOM") == b"\xef\xbb\xbf", "UTF-8 byte-order mark constant: %s" % consts.get("UTF8_BOM"), config=cfg)
        if "encoding" in F.features:
            b = ctx.body(F, "encoding::detect_encoding", "R3")
            if b is not None:
                tab = {}
                for p in ctx.paths(b):
                    r = ret_of(p)
                    if r is None or r[0] != "agg" or r[2] != "Some":
                        continue
                    # the signature this exit requires: the literal of the starts_with test that succeeded, or the
                    # bytes a slice pattern `[a, b, c, d, ..]` compared position by position
                    lit = None
                    for e in p:
                        if e[0] == "switch" and call_is(e[2], "starts_with") and e[3] != 0:
                            last = e[2][3][1]
                            lit = bytes_literal(last)
                            if lit is None:
                                a = strip_wrappers(last)
                                lit = bytes(x[2] for x in a[1]) if a[0] == "array" else None
                    if lit is None:
                        sig = {}
                        for e in p:
                            if e[0] == "switch" and e[2][0] == "pl" and root_of(e[2])[0] == "arg" and root_of(e[2])[2] == "bytes" and isinstance(e[3], int) and not isinstance(e[3], bool):
                                ci = [x for x in e[2][2] if isinstance(x, tuple) and x[0] == "ci"]
                                if ci and not ci[-1][2]:
                                    sig[ci[-1][1]] = e[3]
                        if sig and sorted(sig) == list(range(len(sig))):
                            lit = bytes(sig[i] for i in range(len(sig)))
                    if lit is not None and any(e[0] == "switch" and call_is(e[2], "starts_with") and e[3] != 0 for e in p):
                        # a mark must be recognised in any input that starts with it: nothing before the successful test
                        # may require more bytes than the mark has
                        hit = [i for i, e in enumerate(p) if e[0] == "switch" and call_is(e[2], "starts_with") and e[3] != 0][0]
                        for e in p[:hit]:
                            if e[0] != "switch" or call_is(e[2], "starts_with") or not has_subterm(e[2], lambda s2: s2[0] == "arg" and s2[1] == 1):
                                continue
                            k = min_len_required(e)
                            ctx.ob("R3", "detect_encoding:precondition[%s]" % lit.hex(), k is not None and k <= len(lit),
                                   "the exit for the mark %s is reached only after `%s` took branch %s, which needs %s bytes: more than the mark has, so a short first piece keeps its mark" % (lit.hex(), sym.show(e[2], 3), e[3], k if k is not None else "an unknown number of"), config=cfg)
                    tup = r[3][0]
                    enc = str(tup[1][0])
                    name = "UTF_16BE" if "UTF_16BE" in enc else "UTF_16LE" if "UTF_16LE" in enc else "UTF_8" if "UTF_8" in enc else "?"
                    skipn = strip_wrappers(tup[1][1])
                    if call_is(skipn, "len") and skipn[3] and bytes_literal(skipn[3][0]) is not None:
                        skipn = ("c", "usize", len(bytes_literal(skipn[3][0])))   # `MARK.len()` of a constant
                    tab[lit] = (name, skipn[2])
                want = {b"\xfe\xff": ("UTF_16BE", 2), b"\xff\xfe": ("UTF_16LE", 2), b"\xef\xbb\xbf": ("UTF_8", 3),
                        b"\x00<\x00?": ("UTF_16BE", 0), b"<\x00?\x00": ("UTF_16LE", 0), b"<?xm": ("UTF_8", 0)}
                ctx.ob("R3", "detect_encoding:table", tab == want, "signature -> (encoding, bytes to skip): %s" % tab, config=cfg)
                for lit, (name, n) in tab.items():
                    if n:
                        ctx.ob("R3", "detect_encoding:len[%s]" % lit.hex(), n == len(lit), "the skipped length equals the length of the mark", config=cfg)
        # sources consume exactly the returned length and do not advance the position
        helper = "detect_encoding" if "encoding" in F.features else "remove_utf8_bom"
        n = 0
        for b in F.bodies_with("XmlSource", end=helper) + F.bodies_matching(r"TokioAdapter::%s::\{closure#0\}$" % helper):
            n += 1
            nm = sym.short(strip_generics(b.path).replace("::{closure#0}", ""))
            pos = "position" in b.names.values()
            cons = []
            for p in ctx.paths(b):
                for c in calls(p):
                    if name_is(c[2], "consume"):
                        cons.append(c[3][1])
                for e in p:
                    if e[0] == "store" and root_of(e[2])[0] == "arg" and root_of(e[2])[2] == "self" and "slice_reader" in b.path:
                        cons.append(e[3])
            if helper == "detect_encoding":
                ok = bool(cons) and all(has_subterm(x, lambda s: call_is(s, "detect_encoding")) for x in cons)
            else:
                ok = bool(cons) and all(has_subterm(x, lambda s: call_is(s, "len") or (s[0] == "c" and "UTF8_BOM" in str(s))) or has_subterm(x, lambda s: s[0] == "len") for x in cons)
            ctx.ob("R3", "%s:consumes-mark" % nm, ok and not pos, "the source skips exactly the detected mark and the BOM does not count into positions (%d consume sites)" % len(cons), config=cfg)
        ctx.floor("R3", "source impls of " + helper, n, 2, config=cfg)


def r4_declaration(ctx):
    for cfg, F in ctx.facts.items():
        if "encoding" not in F.features:
            ctx.ob("R4", "not-compiled", True, "only with the `encoding` feature", config=cfg)
            continue
        b = ctx.body(F, "events::BytesDecl::encoder", "R4")
        if b is not None:
            names = [sym.short(c[2]).split("::")[-1] for p in ctx.paths(b) for c in calls(p)]
            fl = [a for p in ctx.paths(b) for c in calls(p) for a in c[3] if a[0] == "closure"]
            labels = False
            for a in fl:
                cb = F.closure(a[1])
                if cb is not None and any(name_is(callee_of(t)[0] or "", "Encoding::for_label") for _, t in cb.calls()):
                    labels = True
            ctx.ob("R4", "BytesDecl::encoder", "encoding" in names and labels, "encoder() = Encoding::for_label(self.encoding()?)", config=cfg)
        e = ctx.body(F, "events::BytesDecl::encoding", "R4")
        if e is not None:
            lit = [bytes_literal(a) for p in ctx.paths(e) for c in calls(p) if name_is(c[2], "try_get_attribute") for a in c[3][1:]]
            ctx.ob("R4", "BytesDecl::encoding", set(lit) == {b"encoding"}, "reads the `encoding` pseudo-attribute: %s" % sorted(set(lit), key=str), config=cfg)


def r5_sniff_is_not_skipped(ctx):
    """The BOM is looked for in the first piece of input: the sniffing helpers (detect_encoding / remove_utf8_bom) must
    actually get that piece, so an interrupted refill is retried like everywhere else (C18 R1 re-evaluated)."""
    import c18
    n0 = len(ctx.obs)
    c18.r1_refill(ctx)
    ctx.obs[n0:] = [o for o in ctx.obs[n0:] if "detect_encoding" in o["site"] or "remove_utf8_bom" in o["site"] or o["site"].startswith("floor:")]
    for o in ctx.obs[n0:]:
        o["rule"] = "R5"

def r6_sniff_before_leaving_init(ctx):
    """The reader leaves state Init only after the sniff (detect_encoding / remove_utf8_bom) has completed: a state
    written before the call survives an I/O error or a dropped future, and the next read starts in InsideText with
    the byte-order mark still in the stream.  Also: the sniff is attempted on every path that leaves Init."""
    import c03
    for cfg, F in ctx.facts.items():
        vs = F.variants("reader::ParseState")
        n = 0
        for b in c03.loop_bodies(F):
            nm = sym.short(strip_generics(b.path).replace("::{closure#0}", ""))
            seen = set()
            for p in ctx.paths(b, max_paths=60000):
                idx = [i for i, e in enumerate(p) if e[0] == "switch" and e[2][0] == "discr" and ends_with_fields(e[2][1], "state", "state")]
                if not idx or not isinstance(p[idx[0]][3], int) or vs[p[idx[0]][3]] != "Init":
                    continue
                sniff = [i for i, e in enumerate(p) if e[0] == "call" and name_is(e[2], "detect_encoding", "remove_utf8_bom") and not isinstance(e[1], tuple)]
                stores = [i for i, e in enumerate(p) if e[0] == "store" and ends_with_fields(e[2], "state", "state") and i > idx[0]]
                if not stores:
                    continue
                first = stores[0]
                key = (bool(sniff), bool(sniff) and sniff[0] < first)
                if key in seen:
                    continue
                seen.add(key)
                n += 1
                ctx.ob("R6", "%s:Init:sniff-then-state" % nm, bool(sniff) and sniff[0] < first,
                       "state Init is left (state written) only after the sniffing helper was called and returned; on this path the %s" % ("helper is not called" if not sniff else "state is written first"), config=cfg)
        ctx.floor("R6", "paths leaving Init", n, 2 if "async-tokio" in F.features else 1, config=cfg)


DECODING_CALLS = ("from_utf8", "encoding::decode", "encoding::decode_into", "decode_without_bom_handling_and_without_replacement", "decode_to_string_without_replacement",
                  "decode_without_bom_handling", "Decoder::decode", "Decoder::decode_into")


def r7_decodes_all_of_it(ctx, rule="R7"):
    """What the reader's decoder is given is what it decodes: in Decoder::decode / decode_into and the free functions
    behind them the bytes handed to the decoding call are the `bytes` parameter itself, not a part of it (a payload
    that happens to begin with EF BB BF is text, U+FEFF, and not a mark to strip; marks are removed once, by the
    sniffing helpers at the start of the document)."""
    for cfg, F in ctx.facts.items():
        n = 0
        for b in F.bodies:
            bp = strip_generics(b.path)
            if not bp.startswith("quick_xml::encoding::") or bp.split("::")[-1] not in ("decode", "decode_into") or is_derive(b):
                continue
            pidx = b.argc - (1 if bp.split("::")[-1] == "decode_into" else 0) - (1 if "Decoder::" not in bp else 0)   # position of `bytes`
            pidx = 2 if "Decoder::" in bp else 1
            fn = sym.short(bp)
            seen = set()
            mine = 0
            for p in ctx.paths(b):
                for c in calls(p):
                    if isinstance(c[1], tuple) or not isinstance(c[2], str) or not name_is(c[2], *DECODING_CALLS):
                        continue
                    key = (c[1], tuple(sym.show(a, 4) for a in c[3]))
                    if key in seen:
                        continue
                    seen.add(key)
                    mine += 1
                    derived = [a for a in c[3] if has_subterm(a, lambda s2: s2[0] == "arg" and s2[1] == pidx)]
                    exact = [a for a in derived if strip_wrappers(a)[0] == "arg" or (strip_wrappers(a)[0] == "pl" and strip_wrappers(a)[1][0] == "arg" and all(x == "*" for x in strip_wrappers(a)[2]))]
                    n += 1
                    ctx.ob(rule, "%s:%s:input" % (fn, sym.short(c[2]).split("::")[-1]), bool(derived) and len(exact) == len(derived),
                           "the decoding call receives the `bytes` parameter as it is; it receives %s" % [sym.show(a, 3)[:80] for a in derived], config=cfg)
            ctx.ob(rule, "%s:decodes" % fn, mine >= 1, "the function decodes through one of the strict, mark-preserving entry points (%d recognised call(s))" % mine, config=cfg)
        ctx.floor(rule, "decoding calls in encoding::{decode, decode_into}", n, 2, config=cfg)


RULES = [("R1", r1_no_lossy), ("R2", r2_machine), ("R3", r3_bom), ("R4", r4_declaration), ("R5", r5_sniff_is_not_skipped), ("R6", r6_sniff_before_leaving_init), ("R7", r7_decodes_all_of_it)]
