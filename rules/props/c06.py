"""C06 — Serialize-then-deserialize returns the original value (structural necessary conditions)."""
from engine import *
import sym
import c10

CONFIGS_QUICK = ["F_all", "F_nool"]  # every configuration whose cfg-gated code the property depends on
CONFIGS_THOROUGH = ["F_all", "F_nool"]
TECHNIQUE = 'static analysis: exact value sets of the 14 escape predicates, replacement/entity inverse table, constant agreement (delimiter, key constants), flag provenance of SimpleTypeDeserializer constructions, QuoteTarget inheritance over every serializer construction, bool literal table, numeric visitor table (diagonal), list filter polarity'
EXPLANATION = (
    "Necessary conditions of the serde round trip that are visible in the code shape: exact escape sets of the 14 "
    "escape_item/escape_list predicates mapped to (target, level) by the enclosing match and compared with the reference "
    "(must contain '&','<', the active quote, the level's base set, and for list items all XML whitespace incl. the list "
    "delimiter; all must have a replacement); replacement/entity inverse table; agreement of the delimiter written by "
    "AtomicSerializer, split on by ListIter and forced to be escaped; the `escaped` flag with which every "
    "SimpleTypeDeserializer is built (list items are split before unescaping only if the content is still escaped); shared "
    "key constants ($text, $value, '@') between se and de; both Deserializer constructors set expand_empty_elements only."
)
ASSUMPTIONS = ["serde's derive/visitor protocol is correct", "only the listed structural clauses are decided, not value equality"]

BASE = {"Full": {60, 62, 38, 39, 34}, "Partial": {60, 62, 38}, "Minimal": {60, 38}}
QUOTE = {"Text": set(), "DoubleQAttr": {34}, "SingleQAttr": {39}}
WS = {9, 10, 13, 32}


def variant_name(F, adt, idx):
    vs = F.variants(adt)
    return vs[idx] if vs and isinstance(idx, int) and idx < len(vs) else None


def r2_sets(ctx):
    for cfg, F in ctx.facts.items():
        table, handled = c10.escape_table(ctx, F, cfg, "R2")
        isws = F.body("utils::is_whitespace")
        ws = valueset(isws) if isws is not None else None
        ctx.ob("R2", "is_whitespace", ws == WS, "XML whitespace is {tab, LF, CR, space}: %s" % (sorted(ws) if ws is not None else None), config=cfg)
        total = 0
        for fn in ("escape_item", "escape_list"):
            b = ctx.body(F, "se::simple_type::" + fn, "R2")
            if b is None:
                continue
            seen = set()
            for p in ctx.paths(b):
                if ends(p) != "ret":
                    continue
                lv = decision_on(p, lambda t: t[0] == "discr" and t[1][0] == "arg" and t[1][2] == "level")
                tg = decision_on(p, lambda t: t[0] == "discr" and t[1][0] == "arg" and t[1][2] == "target")
                level = variant_name(F, "se::QuoteLevel", lv)
                cs = [c for c in calls(p) if name_is(c[2], "_escape")]
                if level is None or len(cs) != 1:
                    ctx.ob("R2", "%s:row" % fn, False, "a path of %s does not decide the quote level and call _escape exactly once" % fn, config=cfg)
                    continue
                clo = [a for a in cs[0][3] if a[0] == "closure"]
                cb = F.closure(clo[0][1]) if clo else None
                if cb is None:
                    ctx.ob("R2", "%s[%s]:closure" % (fn, level), False, "predicate closure not found", config=cfg)
                    continue
                vs = valueset(cb)
                targets = [variant_name(F, "se::simple_type::QuoteTarget", tg)] if tg is not None else list(QUOTE)
                for target in targets:
                    key = (fn, target, level)
                    if key in seen:
                        continue
                    seen.add(key)
                    total += 1
                    want = BASE[level] | QUOTE[target] | (WS if fn == "escape_item" else set())
                    site = "%s(%s,%s)" % (fn, target, level)
                    ctx.ob("R2", site + ":contains", vs >= want, "escape set %s must contain %s" % (sorted(vs), sorted(want)), config=cfg)
                    if handled is not None:
                        ctx.ob("R2", site + ":handled", vs <= handled, "every selected byte has a replacement in _escape", config=cfg)
                    ctx.ob("R2", site + ":value-param", cs[0][3][0][0] == "arg" and cs[0][3][0][2] == "value", "the escaped string is the function's value parameter", config=cfg)
            ctx.floor("R2", "(target, level) cells of " + fn, len(seen), 9, config=cfg)
        # serialize_str of the atomic / simple-type serializers goes through these functions
        for ser, fn in (("AtomicSerializer", "escape_item"), ("SimpleTypeSerializer", "escape_list")):
            bs = F.bodies_with("se::simple_type::" + ser, "Serializer", end="serialize_str")
            nw = 0
            bad = 0
            for b in bs:
                for p in ctx.paths(b):
                    for c in calls(p):
                        if name_is(c[2], "write_str"):
                            nw += 1
                            if not has_subterm(c[3][1], lambda s: call_is(s, fn) and strip_wrappers(s[3][0])[0] == "arg"):
                                bad += 1
            ctx.ob("R2", "%s::serialize_str" % ser, bool(bs) and nw >= 1 and bad == 0, "string payloads are written only after %s (write_str calls %d, unescaped %d)" % (fn, nw, bad), config=cfg)


def r1_inverse(ctx):
    # same rule as C10 R2 (replacement literals are the inverse of the entity table / decimal references)
    c10.r2_inverse(ctx)
    for o in ctx.obs:
        if o["rule"] == "R2" and o["site"].startswith(("_escape:replacement", "resolve_xml_entity", "floor:entities", "floor:replacement", "unescape:", "resolve_predefined")):
            o["rule"] = "R1"


def r3_delimiter(ctx):
    for cfg, F in ctx.facts.items():
        w = None
        for b in F.bodies_with("se::simple_type::AtomicSerializer", end="write_str"):
            for p in ctx.paths(b):
                for c in calls(p):
                    if name_is(c[2], "write_char"):
                        w = c[3][1]
        wv = char_value(w[2]) if w is not None and w[0] == "c" and w[1] == "char" else None
        d = None
        for b in F.bodies_with("de::simple_type::ListIter", "SeqAccess", end="next_element_seed"):
            for p in ctx.paths(b, max_paths=50000):
                for c in calls(p):
                    if name_is(c[2], "memchr"):
                        d = c10.const_int(c[3][0])
        isws = F.body("utils::is_whitespace")
        ws = valueset(isws) if isws is not None else set()
        ctx.ob("R3", "list-delimiter", wv is not None and wv == d and d in ws and d in WS,
               "the byte written between list items (%s), the byte ListIter splits on (%s) and the whitespace set forced to be escaped in items %s must agree" % (wv, d, sorted(ws)), config=cfg)


def r4_split_before_unescape(ctx):
    for cfg, F in ctx.facts.items():
        n = 0
        for b in F.bodies:
            if "::tests::" in b.path or b.path.endswith("SimpleTypeDeserializer::<'de, 'a>::new"):
                continue
            for i, t in b.calls():
                from facts import callee_of
                d, r = callee_of(t)
                if d is None or not name_is(d, "SimpleTypeDeserializer::new"):
                    continue
                n += 1
                for p in ctx.paths(b):
                    for c in calls(p):
                        if c[1] == i:
                            esc = c[3][1]
                            fn = sym.short(strip_generics(b.path))
                            if esc[0] == "c":
                                ctx.ob("R4", "%s:escaped=%s" % (fn, str(esc[2]).lower()), esc[2] is True,
                                       "a SimpleTypeDeserializer (which can serve deserialize_seq -> ListIter) is built with escaped=%s: list items carry their delimiter as &#32;, so the content must still be escaped when it is split" % esc[2],
                                       loc=b.loc(c[4]), config=cfg)
                            else:
                                ctx.ob("R4", "%s:escaped=param" % fn, esc[0] == "arg", "escaped flag is passed through from the caller", config=cfg)
                            break
                    else:
                        continue
                    break
        ctx.floor("R4", "SimpleTypeDeserializer::new call sites", n, 2, config=cfg)
        # callers of from_part pass `true`
        m = 0
        for b, i, t in callers_of(F, "SimpleTypeDeserializer::from_part"):
            for p in ctx.paths(b, max_paths=50000):
                hit = [c for c in calls(p) if c[1] == i]
                if hit:
                    m += 1
                    esc = hit[0][3][2]
                    ctx.ob("R4", "%s:from_part:escaped" % sym.short(strip_generics(b.path)), esc == ("c", "bool", True), "attribute values are handed over still escaped", loc=b.loc(hit[0][4]), config=cfg)
                    break
        ctx.floor("R4", "from_part call sites", m, 1, config=cfg)
        # ListIter / AtomicDeserializer inherit the flag unchanged
        for b in F.bodies_with("de::simple_type::SimpleTypeDeserializer", "Deserializer<'de>", end="deserialize_seq"):
            ok = False
            for p in ctx.paths(b):
                for c in calls(p):
                    if name_is(c[2], "visit_seq"):
                        a = c[3][1]
                        if a[0] == "agg" and a[1].endswith("ListIter"):
                            ok = is_self_field(a[3][1], "escaped")
            ctx.ob("R4", "deserialize_seq:ListIter.escaped", ok, "ListIter is built with the deserializer's own escaped flag", config=cfg)


from facts import strip_generics


def const_uses(F, const_suffix):
    """bodies (by module prefix) that mention the named constant"""
    out = set()
    for b in F.bodies:
        for i, blk in enumerate(b.blocks):
            for st in blk["stmts"]:
                if const_suffix in str(st):
                    out.add(b.path)
            if const_suffix in str(blk["term"]):
                out.add(b.path)
    return out


def r5_keys(ctx):
    for cfg, F in ctx.facts.items():
        for key, lit in (("de::TEXT_KEY", "$text"), ("de::VALUE_KEY", "$value")):
            users = const_uses(F, "quick_xml::" + key)
            se = [u for u in users if "::se::" in u]
            de = [u for u in users if "::de::" in u]
            ctx.ob("R5", key + ":shared", bool(se) and bool(de), "serializer and deserializer use the same constant item (se users %d, de users %d)" % (len(se), len(de)), config=cfg)
            # no private re-spelling of the literal
            raw = [b.path for b in F.bodies if ("::se::" in b.path or "::de::" in b.path) and not b.j["kind"].startswith("Const") and not is_derive(b) and ('"%s"' % lit) in str(b.j["blocks"]).replace("\\\\", "\\") and "quick_xml::" + key not in str(b.j["blocks"])]
            ctx.ob("R5", key + ":no-respelling", not raw, "no body spells the key as a separate literal: %s" % raw[:3], config=cfg)
        # '@' on both sides
        sides = {}
        for b in F.bodies_matching(r"se::element::<impl .*SerializeStruct for quick_xml::se::element::Struct<.*>>::serialize_field$") + F.bodies_matching(r"se::element::Struct<.*>::write_field$") + F.bodies_matching(r"se::element::.*"):
            for p_i, blk in enumerate(b.blocks):
                t = blk["term"]
                if t["k"] == "call" and "strip_prefix" in str(t["f"]) and "'@'" in str(t["args"]):
                    sides["se"] = b.path
        for b in F.bodies_with("de::key::QNameDeserializer", end="from_attr"):
            for blk in b.blocks:
                t = blk["term"]
                if t["k"] == "call" and "push" in str(t["f"]) and "'@'" in str(t["args"]):
                    sides["de"] = b.path
        ctx.ob("R5", "attribute-marker", "se" in sides and "de" in sides, "attributes are recognised by stripping '@' (se) and named by prepending '@' (de): %s" % sorted(sides), config=cfg)
        # deserializer constructors: expand_empty_elements = true and nothing else
        n = 0
        for b in F.bodies:
            if "::de::" not in b.path:
                continue
            for p_i, st in b.stmts():
                pl = st.get("p")
                if pl and pl[1] and any(isinstance(e, dict) and e.get("n") in ("expand_empty_elements", "check_end_names", "allow_unmatched_ends", "trim_text_start", "trim_text_end", "check_comments", "trim_markup_names_in_closing_tags") for e in pl[1]):
                    fld = [e["n"] for e in pl[1] if isinstance(e, dict) and "n" in e][-1]
                    val = st["r"].get("o", {}).get("k", {}).get("v") if st["r"]["k"] == "use" else None
                    n += 1
                    ctx.ob("R5", "%s:config.%s" % (sym.short(strip_generics(b.path)), fld), fld == "expand_empty_elements" and val == "true",
                           "deserializer constructors may only set expand_empty_elements = true (writes %s = %s)" % (fld, val), loc=b.loc(st["s"]), config=cfg)
        ctx.floor("R5", "config writes in de constructors", n, 2, config=cfg)


def r6_quote_target(ctx):
    """the quoting context (text / double-quoted attribute) is decided once and inherited by every derived serializer"""
    import quote
    for cfg, F in ctx.facts.items():
        quote.check(ctx, "R6", F, cfg)


def r7_bool_table(ctx):
    """bool round trip: the serializers write `true` / `false`, and the deserializer's literal table maps those
    (and the XSD alternatives 1 / 0) back to the same values."""
    for cfg, F in ctx.facts.items():
        bs = [b for b in F.bodies_matching(r"utils::CowRef::.*deserialize_bool$")]
        ctx.ob("R7", "deserialize_bool:anchor", len(bs) == 1, "CowRef::deserialize_bool found (%d)" % len(bs), config=cfg)
        for b in bs:
            tab = {}
            for p in ctx.paths(b):
                vb = [c for c in calls(p) if name_is(c[2], "visit_bool")]
                if not vb:
                    continue
                val = strip_wrappers(vb[-1][3][-1])
                hit = [e for e in p if e[0] == "switch" and call_is(e[2], "eq") and e[3] != 0]
                lit = None
                if hit:
                    for a in hit[-1][2][3]:
                        a0 = strip_wrappers(a)
                        if a0[0] == "c" and isinstance(a0[2], str):
                            lit = a0[2].strip('"')
                tab.setdefault(lit, set()).add(val[2] if val[0] == "c" else sym.show(val, 1))
            want = {"1": {True}, "true": {True}, "0": {False}, "false": {False}}
            ctx.ob("R7", "deserialize_bool:table", tab == want, "literal -> value: %s" % {k: sorted(v, key=str) for k, v in tab.items()}, config=cfg)
        n = 0
        for b in F.bodies_matching(r"quick_xml::se::.*Serializer>::serialize_bool$"):
            rows = {}
            for p in ctx.paths(b):
                ws = [c for c in calls(p) if name_is(c[2], "write_str") and len(c[3]) > 1 and bytes_literal(c[3][1]) is not None]
                if not ws:
                    continue
                d = decision_on(p, lambda t: strip_wrappers(t)[0] == "arg" and strip_wrappers(t)[2] in ("value", "v"))
                rows[d != 0 if d is not None else None] = bytes_literal(ws[-1][3][1])
            if rows:
                n += 1
                ctx.ob("R7", "serialize_bool:%s" % sym.short(strip_generics(b.path)).split(" as ")[0].strip("<"), rows == {True: b"true", False: b"false"}, "value -> literal written: %s" % rows, config=cfg)
        ctx.floor("R7", "serializers writing bool literals", n, 1, config=cfg)


def r8_lists(ctx):
    """element lists: MapValueSeqAccess takes exactly the elements the field filter accepts (C20 R5 table, which also
    covers the build without overlapped lists, where a non-matching element ends the list)"""
    import c20
    n0 = len(ctx.obs)
    c20.r5_seq_table(ctx)
    for o in ctx.obs[n0:]:
        o["rule"] = "R8"


NUMS = ("i8", "i16", "i32", "i64", "i128", "u8", "u16", "u32", "u64", "u128", "f32", "f64")


def r9_numeric_table(ctx):
    """every numeric entry point of the deserializers parses and visits its own type: deserialize_T may call
    visit_T (or give the text to the visitor when it does not parse) and may forward only to deserialize_T"""
    import re
    for cfg, F in ctx.facts.items():
        n = 0
        for b in F.bodies:
            m = re.search(r"deserialize_(%s)$" % "|".join(NUMS), strip_generics(b.path))
            if not m or not b.loc(b.j["span"]).startswith("src/de/"):
                continue
            ty = m.group(1)
            bad = []
            for _, t in b.calls():
                d = callee_of(t)[0] or ""
                last = d.split("::")[-1]
                if last.startswith("visit_") and last not in ("visit_" + ty, "visit_str", "visit_string", "visit_borrowed_str"):
                    bad.append(last)
                mm = re.match(r"deserialize_(%s)$" % "|".join(NUMS), last)
                if mm and mm.group(1) != ty:
                    bad.append(last)
            n += 1
            if bad:
                ctx.ob("R9", "%s" % sym.short(strip_generics(b.path)), False, "deserialize_%s hands the value to %s: another type's range and syntax" % (ty, sorted(set(bad))), loc=b.loc(b.j["span"]), config=cfg)
        ctx.ob("R9", "numeric-table", True, "numeric deserialize_* entry points examined: %d" % n, config=cfg)
        ctx.floor("R9", "numeric deserialize_* entry points", n, 36, config=cfg)


# deserializers whose Option is decided by the emptiness of a text (the others always have a value: visit_some)
OPTION_BY_TEXT = ("QNameDeserializer", "MapValueDeserializer", "AtomicDeserializer", "TextDeserializer", "Deserializer")


def r10_option_table(ctx):
    """`None` is written as nothing, so an empty text (or the end of the input) must read back as None and anything else
    as Some: every deserialize_option that looks at a text decides by `is_empty()` with that polarity."""
    for cfg, F in ctx.facts.items():
        n = 0
        for b in F.bodies:
            if not strip_generics(b.path).endswith("::deserialize_option") or not b.loc(b.j["span"]).startswith("src/de/"):
                continue
            import re as _re
            mty = _re.match(r"<(?:&'a mut )?(?:quick_xml::)?([\w:]+)", strip_generics(b.path))
            ty = mty.group(1).split("::")[-1] if mty else b.loc(b.j["span"])
            if ty not in OPTION_BY_TEXT:
                continue
            rows = {}
            for p in ctx.paths(b):
                vis = [sym.short(c[2]).split("::")[-1] for c in calls(p) if name_is(c[2], "visit_none", "visit_some")]
                if not vis:
                    continue
                e = None
                for x in p:
                    if x[0] == "switch" and call_is(x[2], "is_empty"):
                        e = x[3] != 0
                if e is not None:
                    rows.setdefault(e, set()).add(vis[-1])
            n += 1
            ctx.ob("R10", "%s::deserialize_option" % ty, rows.get(True) == {"visit_none"} and "visit_some" in rows.get(False, set()),
                   "empty text -> visit_none, non-empty -> visit_some: %s" % {str(k): sorted(v) for k, v in rows.items()}, loc=b.loc(b.j["span"]), config=cfg)
        ctx.floor("R10", "deserialize_option bodies that test emptiness", n, len(OPTION_BY_TEXT), config=cfg)


def r11_charrefs(ctx):
    """the serializer writes some characters as numeric references (whitespace inside list items): every reference to
    a valid non-zero scalar value must read back as that character (C10 R5 re-evaluated)"""
    import c10
    n0 = len(ctx.obs)
    c10.r5_charref(ctx)
    for o in ctx.obs[n0:]:
        o["site"] = "charref:" + o["site"]
        o["rule"] = "R11"

def r12_names(ctx):
    """"serialization succeeds" for every value whose names are XML names: the serializer's name check must accept
    exactly the XML 1.1 Name production, no less (C13 R2's exact interval sets re-evaluated: a class that lost a
    character makes legal keys unserializable)"""
    import c13
    n0 = len(ctx.obs)
    c13.r2_xmlname(ctx)
    for o in ctx.obs[n0:]:
        o["site"] = "names:" + o["site"]
        o["rule"] = "R12"


def r13_whole_writes(ctx):
    """serializing into an io::Write goes through the ToFmtWrite adapter: it must hand over all of every fragment
    (C13 R5 re-evaluated: write_all, never a bare write())"""
    import c13
    n0 = len(ctx.obs)
    c13.r5_no_partial_write(ctx)
    for o in ctx.obs[n0:]:
        o["site"] = "sink:" + o["site"]
        o["rule"] = "R13"


RULES = [("R1", r1_inverse), ("R2", r2_sets), ("R3", r3_delimiter), ("R4", r4_split_before_unescape), ("R5", r5_keys), ("R6", r6_quote_target), ("R7", r7_bool_table), ("R8", r8_lists), ("R9", r9_numeric_table), ("R10", r10_option_table), ("R11", r11_charrefs), ("R12", r12_names), ("R13", r13_whole_writes)]
