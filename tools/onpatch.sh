#!/bin/bash
# tools/onpatch.sh <patch> <Cxx>... : run quick checks against a scratch copy of /repo with <patch> applied (scratch under /tmp, removed afterwards)
set -e
P=$(realpath "$1"); shift
T=$(mktemp -d /tmp/qxpatch-XXXX)
rsync -a --exclude target --exclude .git /repo/ "$T/"
( cd "$T" && git apply "$P" )
for c in "$@"; do
  VERIF_REPO="$T" VERIF_EVIDENCE_DIR="$T/_ev" VERIF_NO_SELFTEST=1 /verif/check "$c" ${KEEP:+--keep} 2>&1 | grep -E "FAIL|^OK|VIOLATION|facts kept" || true
done
[ -n "$KEEPTREE" ] && echo "tree kept at $T" || rm -rf "$T"
