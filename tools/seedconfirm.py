#!/usr/bin/env python3
"""Confirm an agent-written breakage in a scratch worktree (/tmp/mut):
  seedconfirm.py <dir with patch.diff, demo.rs, meta.json>
1. patch applies to /repo's HEAD, crate builds; 2. pinned suite (default features) passes with the patch;
3. demo fails with the patch; 4. demo passes without it.  Prints a JSON verdict."""
import json, os, subprocess, sys, shutil

d = sys.argv[1]
W = os.environ.get("SEED_W", "/tmp/mut")
head = subprocess.check_output(["git", "-C", "/repo", "rev-parse", "HEAD"], text=True).strip()
subprocess.run(["git", "-C", W, "checkout", "-q", "--detach", head], check=True)
subprocess.run(["git", "-C", W, "checkout", "-q", "--", "."], check=True)
meta = json.load(open(os.path.join(d, "meta.json")))
feats = (meta.get("features") or "").strip()
first = open(os.path.join(d, "demo.rs")).readline()
if first.startswith("// features:") and not feats:
    feats = first.split(":", 1)[1].strip()
fa = ["--features", feats] if feats else []
res = {"dir": d, "features": feats}


def run(cmd, **kw):
    p = subprocess.run(cmd, cwd=W, stdout=subprocess.PIPE, stderr=subprocess.STDOUT, text=True, **kw)
    return p.returncode, p.stdout


def suite(args):
    rc, out = run(["cargo", "test", "--offline"] + args)
    passed = sum(int(l.split()[3]) for l in out.splitlines() if l.startswith("test result:"))
    failed = sum(int(l.split()[5]) for l in out.splitlines() if l.startswith("test result:"))
    return rc, passed, failed, out


demo = os.path.join(W, "tests", "zz_seed_demo.rs")
try:
    rc, out = run(["git", "apply", "--check", os.path.join(d, "patch.diff")])
    res["applies"] = rc == 0
    if rc != 0:
        res["error"] = out[-500:]
        raise SystemExit
    run(["git", "apply", os.path.join(d, "patch.diff")])
    rc, p, f, out = suite([])
    res["suite_default_with_patch"] = {"rc": rc, "passed": p, "failed": f}
    if feats:
        rc, p, f, out = suite(["--features", "serialize,encoding,async-tokio,overlapped-lists"])
        res["suite_features_with_patch"] = {"rc": rc, "passed": p, "failed": f}
    shutil.copy(os.path.join(d, "demo.rs"), demo)
    rc, out = run(["cargo", "test", "--offline", "--test", "zz_seed_demo"] + fa)
    res["demo_with_patch_fails"] = rc != 0 and "test result: FAILED" in out or ("panicked" in out and rc != 0)
    res["demo_with_patch_tail"] = [l for l in out.splitlines() if "panicked" in l or "test result" in l or l.startswith("error")][:4]
    os.remove(demo)
    run(["git", "checkout", "-q", "--", "."])
    shutil.copy(os.path.join(d, "demo.rs"), demo)
    rc, out = run(["cargo", "test", "--offline", "--test", "zz_seed_demo"] + fa)
    res["demo_without_patch_passes"] = rc == 0
    res["demo_without_patch_tail"] = [l for l in out.splitlines() if "test result" in l or l.startswith("error")][:3]
finally:
    if os.path.exists(demo):
        os.remove(demo)
    subprocess.run(["git", "-C", W, "checkout", "-q", "--", "."])
    res["confirmed"] = bool(res.get("applies") and res.get("suite_default_with_patch", {}).get("failed") == 0 and res.get("suite_default_with_patch", {}).get("rc") == 0
                            and res.get("demo_with_patch_fails") and res.get("demo_without_patch_passes")
                            and (not feats or res.get("suite_features_with_patch", {}).get("failed") == 0))
    print(json.dumps(res, indent=1))
