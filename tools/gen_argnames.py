#!/usr/bin/env python3
"""Regenerates rules/argnames.json: for every function body of the crate (all feature configurations) the names of its
parameters and captured variables on the tree the rules were written against.  Run only when the rules are re-audited
against a new reference tree."""
import json, os, sys, tempfile, shutil
sys.path.insert(0, "/verif/rules")
os.environ["VERIF_NO_ARGNAMES"] = "1"
import facts
out = {}
work = tempfile.mkdtemp(prefix="qxargs-")
try:
    for cfg in ("F_all", "F_def", "F_noenc", "F_nool"):
        F = facts.load(cfg, work)
        for b in F.bodies:
            args = {str(l): n for l, n in b.names.items() if 1 <= l <= b.argc}
            ups = {str(k): n for k, n in b.upvars.items()}
            if args or ups:
                out.setdefault(b.path, {"argc": b.argc, "args": args, "upvars": ups})
finally:
    shutil.rmtree(work, ignore_errors=True)
json.dump(out, open("/verif/rules/argnames.json", "w"), indent=0, sort_keys=True)
print(len(out), "bodies")
