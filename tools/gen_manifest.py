#!/usr/bin/env python3
"""Regenerates MANIFEST.json from the property modules that exist under rules/props."""
import json, os, sys, importlib
HERE = os.path.dirname(os.path.dirname(os.path.abspath(__file__)))
sys.path.insert(0, os.path.join(HERE, "rules"))
sys.path.insert(0, os.path.join(HERE, "rules", "props"))

TECH = {}
props = [json.loads(l) for l in open(os.path.join(HERE, "properties.jsonl"))]
checks, na = [], []
pending = []
for p in props:
    pid = p["id"]
    modp = os.path.join(HERE, "rules", "props", pid.lower() + ".py")
    if not os.path.exists(modp):
        na.append({"property_id": pid, "reason": "no static rule armed for this property in this revision (see DESIGN.md section 3)"})
        continue
    mod = importlib.import_module(pid.lower())
    if getattr(mod, "NOT_APPLICABLE", None):
        na.append({"property_id": pid, "reason": mod.NOT_APPLICABLE})
        continue
    checks.append({
        "property_id": pid,
        "quick_cmd": "./check %s --tier quick" % pid,
        "thorough_cmd": "./check %s --tier thorough" % pid,
        "evidence_file": "/verif/evidence/%s.json" % pid,
        "replay_cmd_template": "./check %s --replay {path}" % pid,
        "engine": "qxfacts+rules",
        "level_claimed": {
            "category": "other",
            "text": "Static analysis of the compiler's MIR of /repo's working tree: " + mod.EXPLANATION + " These are structural necessary conditions of the property (breaking one breaks the behaviour); the universally quantified behavioural statement itself is NOT proved.",
            "design_ref": "DESIGN.md section 2, " + pid,
        },
        "level_note": "Trusted: rustc nightly MIR construction and trait resolution; std/memchr/encoding_rs/serde at their interfaces; the reference tables in rules/props/%s.py (provenance in DESIGN.md Appendix A). Decides the named structural clauses only, for the feature configurations %s (quick) / %s (thorough)." % (pid.lower(), ",".join(mod.CONFIGS_QUICK), ",".join(mod.CONFIGS_THOROUGH)),
        "technique": getattr(mod, "TECHNIQUE", "static analysis: path-sensitive decision-table extraction, value-set and who-may-call rules over rustc MIR (custom rustc_private driver)"),
    })

fixes = []
kf = os.path.join(HERE, "known_findings.json")
m = {
    "version": 1,
    "setup_cmd": "cd /verif/driver && CARGO_NET_OFFLINE=true cargo +nightly build --release --offline && cd /verif && CARGO_NET_OFFLINE=true python3 tools/warm.py",
    "hooks": {
        "guard": "none (no hooks: the analysis reads the compiler's own representation of the unmodified sources)",
        "enable": "not needed; checks compile /repo with `cargo +nightly check --offline --lib [--features ...]` through the qxfacts driver (RUSTC_WORKSPACE_WRAPPER)",
        "baseline_off_cmd": "cd /repo && cargo test --workspace --no-fail-fast --offline",
        "source_commits": json.load(open(os.path.join(HERE, "tools", "source_commits.json"))) if os.path.exists(os.path.join(HERE, "tools", "source_commits.json")) else [],
        "add_only": True,
    },
    "engines": [
        {"name": "qxfacts", "path": "driver/", "serves_properties": [c["property_id"] for c in checks], "kind_free_text": "rustc_private driver dumping items and built MIR (resolved callees, constants, macro provenance) of quick_xml as JSON"},
        {"name": "rules", "path": "rules/", "serves_properties": [c["property_id"] for c in checks], "kind_free_text": "python3 rule engine: CFG/dominators, symbolic path walker (decision tables), value sets of byte predicates, literal sequences, who-may-call; one module per property under rules/props"},
    ],
    "checks": checks,
    "notes": "Technique family: static analysis only. Every check recompiles /repo's working tree through the driver and reports constructs (function, call site, path), never inputs. Known genuine findings are listed in known_findings.json.",
    "not_applicable": na,
}
json.dump(m, open(os.path.join(HERE, "MANIFEST.json"), "w"), indent=1)
print("checks:", [c["property_id"] for c in checks], "n/a:", [n["property_id"] for n in na])
