#!/usr/bin/env python3
"""tools/mutants.py gen|run|check|report  — mutation analysis of the *checker* (not a property check).

Generates small textual mutants of /repo's non-test source, keeps those that still compile and pass the pinned
suite (default features: `cargo test --offline --no-fail-fast --lib --tests`) in scratch copies under /tmp/qxmut
(removed by `clean`), and runs the twenty quick checks against every survivor.  Survivors no check fires on are the
triage list: equivalent mutants, out-of-scope behaviour, or a gap in a rule.

  gen  [file-substr ...]     -> /tmp/qxmut/mutants.jsonl  (id, file, line, op, old, new)
  run  [-j N] [--limit K]    -> /tmp/qxmut/results.jsonl  (id, status: nocompile|killed|timeout|survived)
  check [-j N]               -> /tmp/qxmut/checked.jsonl  (id, fired: {Cxx: [sites]})
  report                     -> table on stdout
  clean
"""
import json, os, random, re, shutil, subprocess, sys, time
from concurrent.futures import ThreadPoolExecutor

ROOT = "/tmp/qxmut"
REPO = "/repo"

REL = [(" < ", " <= "), (" <= ", " < "), (" > ", " >= "), (" >= ", " > "), (" == ", " != "), (" != ", " == ")]
ARITH = [(" + 1", " + 2"), (" + 1", ""), (" - 1", ""), (" - 1", " - 2"), (" - 2", " - 1"), (" + 2", " + 1"), (" += 1", " += 2"), (" -= 1", " -= 2"), ("..=", ".."), (" + ", " - ")]
BOOL = [("true", "false"), ("false", "true"), (" && ", " || "), (" || ", " && ")]


def source_files():
    out = []
    for d, _, fs in os.walk(os.path.join(REPO, "src")):
        for f in fs:
            if f.endswith(".rs"):
                out.append(os.path.join(d, f))
    return sorted(out)


def code_lines(path):
    """(lineno, text) of non-test, non-comment lines."""
    out = []
    depth_test = None
    lines = open(path, encoding="utf-8").read().split("\n")
    i = 0
    in_test = False
    brace = 0
    pending_test = False
    for n, l in enumerate(lines, 1):
        s = l.strip()
        if not in_test and s.startswith("#[cfg(test)]"):
            pending_test = True
            continue
        if pending_test:
            if s.startswith("mod ") and s.endswith("{"):
                in_test = True
                brace = 1
                pending_test = False
                continue
            if s.startswith("#[") or not s:
                continue
            pending_test = False
        if in_test:
            brace += l.count("{") - l.count("}")
            if brace <= 0:
                in_test = False
            continue
        if not s or s.startswith("//") or s.startswith("#[") or s.startswith("///") or s.startswith("//!") or s.startswith("use ") or s.startswith("pub use "):
            continue
        if "debug_assert" in s or "unreachable!" in s or "macro_rules!" in s:
            continue
        out.append((n, l))
    return out


def strip_comment(l):
    i = l.find("//")
    return l if i < 0 else l[:i]


GEN2 = False
GEN3 = False


def gen(filters):
    os.makedirs(ROOT, exist_ok=True)
    muts = []
    for f in source_files():
        rel = os.path.relpath(f, REPO)
        if filters and not any(x in rel for x in filters):
            continue
        for n, l in code_lines(f):
            code = strip_comment(l)
            if '"' in code and code.count('"') >= 2 and not ("b\"" in code):
                pass
            for ops, kind in ((REL, "rel"), (ARITH, "arith"), (BOOL, "bool")):
                for old, new in ops:
                    start = 0
                    k = 0
                    while True:
                        i = code.find(old, start)
                        if i < 0:
                            break
                        start = i + len(old)
                        if kind == "bool" and old in ("true", "false"):
                            if (i > 0 and (code[i - 1].isalnum() or code[i - 1] == "_")) or (start < len(code) and (code[start].isalnum() or code[start] == "_")):
                                continue
                        if old == " + " and (code[start:start + 1].isdigit()):
                            continue  # covered by the constant operators
                        if old in (" < ", " > ") and ("fn " in code or "impl" in code or "->" in code or "where" in code or "::<" in code):
                            continue
                        muts.append({"file": rel, "line": n, "op": kind, "col": i, "old": old, "new": new})
                        k += 1
            s = code.strip()
            # negation removal
            for m in re.finditer(r"(?<![=!<>])!(?=[a-zA-Z_(])", code):
                if code[m.end():m.end() + 10].startswith(("matches!", "(")) or True:
                    if re.match(r"[a-z_]+!", code[m.start() - 20 if m.start() >= 20 else 0:m.start() + 1].split()[-1] if code[:m.start() + 1].split() else ""):
                        continue
                    # skip macro invocations like `write!(`: a '!' preceded by an identifier
                    if m.start() > 0 and (code[m.start() - 1].isalnum() or code[m.start() - 1] == "_"):
                        continue
                    muts.append({"file": rel, "line": n, "op": "neg", "col": m.start(), "old": "!", "new": ""})
            # statement deletion: simple single-line statements
            if re.match(r"^(self|\*?[a-z_][a-z_0-9.]*)(\.[a-z_0-9]+)*\s*(=|\+=|-=)\s*[^=].*;$", s) or re.match(r"^(self|[a-z_][a-z_0-9]*)(\.[a-z_0-9]+)*\.[a-z_0-9]+\(.*\);$", s) or s in ("continue;", "break;"):
                if not s.startswith("let "):
                    muts.append({"file": rel, "line": n, "op": "del", "col": 0, "old": s, "new": ""})
            # third batch (gen3): `x(..)?;` statement deletion, single-line match-arm deletion, forced conditions
            if GEN3:
                if re.match(r"^(self|[a-z_][a-z_0-9]*)(\.[a-z_0-9]+)*\.[a-z_0-9]+\(.*\)\?;$", s) and not s.startswith("let "):
                    muts.append({"file": rel, "line": n, "op": "delq", "col": 0, "old": s, "new": ""})
                if re.match(r"^[^/]*=>.*,$", s) and not s.startswith("_ =>") and s.count("=>") == 1 and "{" not in s:
                    muts.append({"file": rel, "line": n, "op": "arm", "col": 0, "old": s, "new": ""})
                mm = re.match(r"^(\s*)(\} else )?if (?!let )(.+) \{$", code)
                if mm and "=>" not in code:
                    for forced in ("true", "false"):
                        muts.append({"file": rel, "line": n, "op": "cond", "col": mm.start(3), "old": mm.group(3), "new": forced})
            # second batch (gen2): byte literals and small integer literals on index-ish lines
            if GEN2:
                for m in re.finditer(r"b'([^'\\])'", code):
                    muts.append({"file": rel, "line": n, "op": "byte", "col": m.start(), "old": m.group(0), "new": "b'!'" if m.group(1) != "!" else "b'?'"})
                if any(k in code for k in ("[", "..", "len", "offset", "position", "depth", "level", "consume", "split_at", "truncate")):
                    for m in re.finditer(r"(?<![\w.'])([0-9])(?![\w.'])", code):
                        if "0x" in code or "'" in code[max(0, m.start() - 2):m.end() + 2]:
                            continue
                        muts.append({"file": rel, "line": n, "op": "lit", "col": m.start(), "old": m.group(1), "new": str(int(m.group(1)) + 1)})
    random.Random(7).shuffle(muts)
    for i, m in enumerate(muts):
        m["id"] = i
    with open(os.path.join(ROOT, "mutants.jsonl"), "w") as f:
        for m in muts:
            f.write(json.dumps(m) + "\n")
    byf = {}
    for m in muts:
        byf[m["file"]] = byf.get(m["file"], 0) + 1
    print(len(muts), "mutants;", json.dumps(byf, indent=0)[:1500])


def apply(m, root):
    p = os.path.join(root, m["file"])
    lines = open(p, encoding="utf-8").read().split("\n")
    l = lines[m["line"] - 1]
    if m["op"] in ("del", "delq", "arm"):
        ind = l[: len(l) - len(l.lstrip())]
        lines[m["line"] - 1] = ind + "/* mutant: deleted */"
    else:
        i = m["col"]
        assert l[i:i + len(m["old"])] == m["old"], (l, m)
        lines[m["line"] - 1] = l[:i] + m["new"] + l[i + len(m["old"]):]
    open(p, "w", encoding="utf-8").write("\n".join(lines))
    return l


def restore(m, root):
    shutil.copy(os.path.join(REPO, m["file"]), os.path.join(root, m["file"]))


def featured(f):
    """code that only exists with features is filtered with the all-features suite (the pinned default-feature suite does not compile it)"""
    return f.startswith(("src/de/", "src/se/", "src/serde_helpers")) or f in ("src/encoding.rs", "src/reader/async_tokio.rs", "src/writer/async_tokio.rs")


def worker_dir(i):
    return os.path.join(ROOT, "w%d" % i)


def prepare(n):
    for i in range(n):
        w = worker_dir(i)
        if not os.path.exists(os.path.join(w, "Cargo.toml")):
            os.makedirs(w, exist_ok=True)
            subprocess.run(["rsync", "-a", "--exclude", "target", "--exclude", ".git", REPO + "/", w + "/"], check=True)
    # build worker 0 then clone its target dir
    w0 = worker_dir(0)
    if not os.path.exists(os.path.join(w0, "target")):
        subprocess.run(["cargo", "test", "--offline", "--no-run", "--lib", "--tests"], cwd=w0, env=dict(os.environ, CARGO_NET_OFFLINE="true"), check=True, stdout=subprocess.DEVNULL, stderr=subprocess.DEVNULL)
    for i in range(1, n):
        w = worker_dir(i)
        if not os.path.exists(os.path.join(w, "target")):
            subprocess.run(["cp", "-a", os.path.join(w0, "target"), os.path.join(w, "target")], check=True)


def run_one(m, wi):
    w = worker_dir(wi)
    apply(m, w)
    t0 = time.time()
    env = dict(os.environ, CARGO_NET_OFFLINE="true", RUSTFLAGS="-Awarnings")
    feat = ["--features", "serialize,encoding,overlapped-lists,async-tokio"] if featured(m["file"]) else []
    try:
        b = subprocess.run(["cargo", "test", "--offline", "--no-run", "--lib", "--tests", "--quiet"] + feat, cwd=w, env=env, capture_output=True, text=True, timeout=600)
        if b.returncode != 0:
            return "nocompile"
        try:
            t = subprocess.run(["cargo", "test", "--offline", "--no-fail-fast", "--lib", "--tests", "--quiet"] + feat, cwd=w, env=env, capture_output=True, text=True, timeout=240)
        except subprocess.TimeoutExpired:
            subprocess.run(["pkill", "-f", w + "/target"], capture_output=True)
            return "timeout"
        return "survived" if t.returncode == 0 else "killed"
    finally:
        restore(m, w)


def run(j, limit, only_files):
    muts = [json.loads(l) for l in open(os.path.join(ROOT, "mutants.jsonl"))]
    done = set()
    rp = os.path.join(ROOT, "results.jsonl")
    if os.path.exists(rp):
        done = {json.loads(l)["id"] for l in open(rp)}
    todo = [m for m in muts if m["id"] not in done and (not only_files or any(x in m["file"] for x in only_files))][:limit]
    prepare(j)
    import queue, threading
    q = queue.Queue()
    for m in todo:
        q.put(m)
    lock = threading.Lock()

    def loop(wi):
        while True:
            try:
                m = q.get_nowait()
            except queue.Empty:
                return
            try:
                st = run_one(m, wi)
            except Exception as e:
                st = "error: %s" % e
            with lock:
                with open(rp, "a") as f:
                    f.write(json.dumps({"id": m["id"], "status": st}) + "\n")
                print(m["id"], m["file"], m["line"], m["op"], repr(m["old"]), "->", repr(m["new"]), st, flush=True)

    ts = [threading.Thread(target=loop, args=(i,)) for i in range(j)]
    for t in ts:
        t.start()
    for t in ts:
        t.join()


def check(j):
    sys.path.insert(0, "/verif/tools")
    import corpus
    muts = {json.loads(l)["id"]: json.loads(l) for l in open(os.path.join(ROOT, "mutants.jsonl"))}
    res = [json.loads(l) for l in open(os.path.join(ROOT, "results.jsonl"))]
    cp = os.path.join(ROOT, "checked.jsonl")
    done = {json.loads(l)["id"] for l in open(cp)} if os.path.exists(cp) else set()
    todo = [muts[r["id"]] for r in res if r["status"] == "survived" and r["id"] not in done]
    pd = os.path.join(ROOT, "patches")
    os.makedirs(pd, exist_ok=True)

    def one(m):
        # make a patch file
        tmp = os.path.join(ROOT, "p%d" % m["id"])
        os.makedirs(os.path.join(tmp, "a", os.path.dirname(m["file"])), exist_ok=True)
        os.makedirs(os.path.join(tmp, "b", os.path.dirname(m["file"])), exist_ok=True)
        shutil.copy(os.path.join(REPO, m["file"]), os.path.join(tmp, "a", m["file"]))
        shutil.copy(os.path.join(REPO, m["file"]), os.path.join(tmp, "b", m["file"]))
        apply(m, os.path.join(tmp, "b"))
        d = subprocess.run(["diff", "-u", os.path.join("a", m["file"]), os.path.join("b", m["file"])], cwd=tmp, capture_output=True, text=True).stdout
        pf = os.path.join(pd, "m%d.diff" % m["id"])
        open(pf, "w").write(d)
        shutil.rmtree(tmp, ignore_errors=True)
        name, fired = corpus.run_one("m%d" % m["id"], pf, corpus.PROPS)
        return m, fired

    with ThreadPoolExecutor(j) as ex:
        for m, fired in ex.map(one, todo):
            with open(cp, "a") as f:
                f.write(json.dumps({"id": m["id"], "fired": {c: [x.split(" :: ")[1] if " :: " in x else x[:80] for x in v][:3] for c, v in fired.items()}}) + "\n")
            print(m["id"], m["file"], m["line"], m["op"], repr(m["old"]), "->", repr(m["new"]), "FIRED " + ",".join(sorted(fired)) if fired else "silent", flush=True)


def report():
    muts = {json.loads(l)["id"]: json.loads(l) for l in open(os.path.join(ROOT, "mutants.jsonl"))}
    res = [json.loads(l) for l in open(os.path.join(ROOT, "results.jsonl"))]
    from collections import Counter
    print(Counter(r["status"].split(":")[0] for r in res))
    cp = os.path.join(ROOT, "checked.jsonl")
    if os.path.exists(cp):
        ch = [json.loads(l) for l in open(cp)]
        print("survivors checked:", len(ch), "fired:", sum(1 for c in ch if c["fired"]), "silent:", sum(1 for c in ch if not c["fired"]))
        for c in ch:
            m = muts[c["id"]]
            src = open(os.path.join(REPO, m["file"])).read().split("\n")[m["line"] - 1].strip()
            print("%5d %-28s %4d %-5s %-8r->%-8r %s | %s" % (c["id"], m["file"], m["line"], m["op"], m["old"][:8], m["new"][:8], ",".join(sorted(c["fired"])) or "SILENT", src[:90]))


if __name__ == "__main__":
    cmd = sys.argv[1]
    args = sys.argv[2:]
    j = 5
    limit = 10 ** 9
    rest = []
    while args:
        a = args.pop(0)
        if a == "-j":
            j = int(args.pop(0))
        elif a == "--limit":
            limit = int(args.pop(0))
        else:
            rest.append(a)
    if cmd == "gen":
        gen(rest)
    elif cmd == "gen3":
        old = [json.loads(l) for l in open(os.path.join(ROOT, "mutants.jsonl"))]
        shutil.copy(os.path.join(ROOT, "mutants.jsonl"), os.path.join(ROOT, "mutants.gen2.jsonl"))
        GEN3 = True
        gen(rest)
        new = [json.loads(l) for l in open(os.path.join(ROOT, "mutants.jsonl"))]
        new = [m for m in new if m["op"] in ("delq", "arm", "cond")]
        for i, m in enumerate(new):
            m["id"] = len(old) + i
        with open(os.path.join(ROOT, "mutants.jsonl"), "w") as f:
            for m in old + new:
                f.write(json.dumps(m) + "\n")
        print("appended", len(new))
    elif cmd == "gen2":
        # append the second batch (new operators only) to the existing list, keeping ids stable
        old = [json.loads(l) for l in open(os.path.join(ROOT, "mutants.jsonl"))]
        shutil.copy(os.path.join(ROOT, "mutants.jsonl"), os.path.join(ROOT, "mutants.gen1.jsonl"))
        GEN2 = True
        gen(rest)
        new = [json.loads(l) for l in open(os.path.join(ROOT, "mutants.jsonl"))]
        new = [m for m in new if m["op"] in ("byte", "lit")]
        for i, m in enumerate(new):
            m["id"] = len(old) + i
        with open(os.path.join(ROOT, "mutants.jsonl"), "w") as f:
            for m in old + new:
                f.write(json.dumps(m) + "\n")
        print("appended", len(new))
    elif cmd == "run":
        run(j, limit, rest)
    elif cmd == "check":
        check(j)
    elif cmd == "report":
        report()
    elif cmd == "clean":
        shutil.rmtree(ROOT, ignore_errors=True)
