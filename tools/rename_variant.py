#!/usr/bin/env python3
"""tools/rename_variant.py <out.diff> [suffix]

Builds a behaviour-preserving variant of /repo in which as many `let`-bound locals and closure parameters as possible
are renamed (name -> name_<suffix>), by a word regex, file by file, keeping only the renames that still compile with
all features and with default features (cargo check in a scratch copy under /tmp/qxrename, removed afterwards).
Used to measure how much the rules depend on the names of locals."""
import os, re, shutil, subprocess, sys

OUT = sys.argv[1]
SUF = sys.argv[2] if len(sys.argv) > 2 else "rn"
PARAMS = len(sys.argv) > 3 and sys.argv[3] == "params"   # rename function parameters instead of locals
W = "/tmp/qxrename/w"
KEY = {"self", "super", "crate", "true", "false", "mut", "ref", "match", "if", "else", "let", "fn", "in", "for", "while", "loop", "return", "Some", "None", "Ok", "Err"}


def check():
    env = dict(os.environ, CARGO_NET_OFFLINE="true", RUSTFLAGS="-Awarnings")
    for feats in (["--features", "serialize,encoding,async-tokio,overlapped-lists,serde-types"], [], ["--features", "serialize"]):
        p = subprocess.run(["cargo", "check", "--offline", "--lib", "--quiet"] + feats, cwd=W, env=env, capture_output=True, text=True)
        if p.returncode != 0:
            return False
    return True


def non_test_span(src):
    idx = [i for i in (src.find("#[cfg(test)]"), src.find("#[test]")) if i >= 0]
    return min(idx) if idx else len(src)


def code_segments(text):
    """split into (is_code, chunk): comments, string and char literals are not code"""
    out = []
    i, n = 0, len(text)
    start = 0
    def flush(j, code):
        nonlocal start
        if j > start:
            out.append((code, text[start:j]))
        start = j
    while i < n:
        c = text[i]
        if text.startswith("//", i):
            flush(i, True)
            j = text.find("\n", i)
            j = n if j < 0 else j
            i = j
            flush(i, False)
        elif text.startswith("/*", i):
            flush(i, True)
            j = text.find("*/", i + 2)
            i = n if j < 0 else j + 2
            flush(i, False)
        elif c == '"' or (c == "r" and re.match(r'r#*"', text[i:i + 6]) and (i == 0 or not (text[i - 1].isalnum() or text[i - 1] == "_"))):
            flush(i, True)
            if c == "r":
                m = re.match(r'r(#*)"', text[i:])
                close = '"' + m.group(1)
                j = text.find(close, i + len(m.group(0)))
                i = n if j < 0 else j + len(close)
            else:
                j = i + 1
                while j < n and text[j] != '"':
                    j += 2 if text[j] == "\\" else 1
                i = min(n, j + 1)
            flush(i, False)
        elif c == "'" :
            m = re.match(r"'(\\.[^']*|[^'\\])'", text[i:i + 12])
            if m:
                flush(i, True)
                i += len(m.group(0))
                flush(i, False)
            else:
                i += 1  # lifetime
        else:
            i += 1
    flush(n, True)
    return out


def rename(src, names, upto):
    head, tail = src[:upto], src[upto:]
    if not names:
        return src
    rx = re.compile(r"(?<![.\w:$'])(%s)(?![\w(!]|::)" % "|".join(re.escape(a) for a in names)) if PARAMS else re.compile(r"(?<![.\w:$'])(%s)(?![\w(!:])" % "|".join(re.escape(a) for a in names))
    head = "".join(rx.sub(lambda m: m.group(1) + "_" + SUF, chunk) if code else chunk for code, chunk in code_segments(head))
    return head + tail


def main():
    shutil.rmtree("/tmp/qxrename", ignore_errors=True)
    os.makedirs("/tmp/qxrename")
    subprocess.run(["rsync", "-a", "--exclude", "target", "--exclude", ".git", "/repo/", W + "/"], check=True)
    assert check(), "baseline does not build"
    total = 0
    for d, _, fs in os.walk(os.path.join(W, "src")):
        for f in sorted(fs):
            if not f.endswith(".rs"):
                continue
            p = os.path.join(d, f)
            src = open(p).read()
            upto = non_test_span(src)
            cands = set(re.findall(r"\blet\s+(?:mut\s+)?([a-z_][a-z0-9_]{2,})\b", src[:upto]))
            cands |= set(re.findall(r"\|\s*&?(?:mut\s+)?([a-z_][a-z0-9_]{1,})\s*\|", src[:upto]))
            cands |= set(re.findall(r"\bfor\s+([a-z_][a-z0-9_]{1,})\s+in\b", src[:upto]))
            if PARAMS:
                cands = set()
                for sig in re.findall(r"\bfn\s+[a-z_0-9]+\s*(?:<[^>{]*>)?\s*\(([^{;]*?)\)\s*(?:->|\{|where)", src[:upto], re.S):
                    cands |= set(re.findall(r"(?:^|[(,]\s*)(?:mut\s+)?([a-z_][a-z0-9_]{1,})\s*:", sig))
            cands = sorted(c for c in cands if c not in KEY and not c.startswith("_"))
            if not cands:
                continue

            def attempt(names):
                open(p, "w").write(rename(src, names, upto))
                return check()

            kept = []
            # greedy with bisection
            def go(names):
                if not names:
                    return
                if attempt(kept + names):
                    kept.extend(names)
                    return
                if len(names) == 1:
                    return
                mid = len(names) // 2
                go(names[:mid])
                go(names[mid:])
            go(cands)
            open(p, "w").write(rename(src, kept, upto))
            assert check()
            total += len(kept)
            print(os.path.relpath(p, W), "renamed", len(kept), "of", len(cands), flush=True)
    d = subprocess.run(["diff", "-ru", "/repo/src", os.path.join(W, "src")], capture_output=True, text=True).stdout
    d = d.replace("--- /repo/", "--- a/").replace("+++ " + W + "/", "+++ b/")
    open(OUT, "w").write(d)
    print("total renamed", total, "->", OUT)
    # tests of the variant
    env = dict(os.environ, CARGO_NET_OFFLINE="true", RUSTFLAGS="-Awarnings")
    t = subprocess.run(["cargo", "test", "--offline", "--lib", "--tests", "--features", "serialize,encoding,async-tokio,overlapped-lists"], cwd=W, env=env, capture_output=True, text=True)
    res = [l for l in t.stdout.splitlines() if l.startswith("test result")]
    print("tests:", "ok" if t.returncode == 0 else "FAILED", sum(int(l.split()[3]) for l in res), "passed")
    shutil.rmtree("/tmp/qxrename", ignore_errors=True)


main()
