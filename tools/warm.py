#!/usr/bin/env python3
"""Part of MANIFEST.setup_cmd: compiles the dependencies of every feature configuration once into /verif/.cache so that
the checks only recompile the workspace member.  Never fails the setup: a check that cannot extract facts fails closed itself."""
import os, shutil, sys, tempfile
sys.path.insert(0, os.path.join(os.path.dirname(os.path.abspath(__file__)), "..", "rules"))
import facts
work = tempfile.mkdtemp(prefix="qxwarm-")
try:
    for cfg in ("F_all", "F_def", "F_noenc", "F_nool"):
        try:
            facts.extract(cfg, work)
            print("warmed", cfg)
        except Exception as e:
            print("warm-up of", cfg, "failed:", e)
finally:
    shutil.rmtree(work, ignore_errors=True)
