#!/usr/bin/env python3
"""Dev helper: apply a textual replacement in a scratch worktree (/tmp/mut), run a check against it, restore.
usage: muttest.py <Cxx> <file> <old> <new> [count]"""
import subprocess, sys, os
prop, f, old, new = sys.argv[1:5]
cnt = int(sys.argv[5]) if len(sys.argv) > 5 else 1
root = "/tmp/mut"
p = os.path.join(root, f)
s = open(p).read()
if old not in s:
    print("PATTERN NOT FOUND"); sys.exit(2)
open(p, "w").write(s.replace(old, new, cnt))
try:
    env = dict(os.environ, VERIF_REPO=root)
    r = subprocess.run(["/verif/check", prop], env=env, capture_output=True, text=True)
    out = r.stdout.strip().splitlines()
    seen = set()
    for l in out:
        if ("FAIL" in l or "VIOLATION" in l or l.startswith("OK") or "KNOWN" in l) and l not in seen:
            seen.add(l); print(l[:400])
    if r.returncode not in (0, 1):
        print(r.stderr[-2000:])
finally:
    subprocess.run(["git", "checkout", "-q", "--", "."], cwd=root)
