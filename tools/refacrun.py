#!/usr/bin/env python3
"""Run every check against /repo with each behaviour-preserving refactoring applied (must all stay silent)."""
import glob, json, os, subprocess, sys
props = ["C%02d" % i for i in range(1, 21)]
res = {}
pats = sys.argv[1:] or sorted(glob.glob("/verif/refactorings/*/refactor_*.diff"))
for pf in pats:
    assert subprocess.run(["git", "-C", "/repo", "status", "--porcelain", "--untracked-files=no"], capture_output=True, text=True).stdout.strip() == ""
    r = subprocess.run(["git", "-C", "/repo", "apply", pf], capture_output=True, text=True)
    key = "/".join(pf.split("/")[-2:])
    if r.returncode != 0:
        res[key] = {"error": "does not apply"}
        print(key, "DOES NOT APPLY")
        continue
    fired = {}
    try:
        for c in props:
            p = subprocess.run(["/verif/check", c], cwd="/verif", capture_output=True, text=True)
            if p.returncode != 0:
                fired[c] = sorted({l.strip()[:300] for l in p.stdout.splitlines() if l.strip().startswith("FAIL")})
    finally:
        subprocess.run(["git", "-C", "/repo", "checkout", "--", "."], check=True)
    res[key] = fired
    print(key, "silent" if not fired else "FIRED " + str({c: len(v) for c, v in fired.items()}), flush=True)
json.dump(res, open("/verif/refactorings/verdicts.json", "w"), indent=1)
