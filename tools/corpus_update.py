#!/usr/bin/env python3
"""tools/corpus_update.py Cxx[,Cyy]  —  after a change that touches only the rule modules of the named properties:
re-runs those checks against every patch of both corpora (scratch copies, like tools/corpus.py), merges the verdicts
into refactorings/verdicts.json and seeded/*/verdicts.json, and renews the stamp the thorough self-test looks at.
The caller asserts that no other property's rules changed since the last complete corpus run."""
import glob, json, os, sys, time
from concurrent.futures import ThreadPoolExecutor
sys.path.insert(0, os.path.dirname(os.path.abspath(__file__)))
import corpus

props = sys.argv[1].split(",")
refs = [("/".join(p.split("/")[-2:]), p) for p in sorted(glob.glob("/verif/refactorings/*/refactor_*.diff"))]
seeds = [(os.path.basename(d), os.path.join(d, "patch.diff")) for d in sorted(glob.glob("/verif/seeded/C*")) if os.path.exists(os.path.join(d, "patch.diff"))]
rv = json.load(open("/verif/refactorings/verdicts.json"))
assert set(rv) == {n for n, _ in refs}, "refactorings/verdicts.json is not complete"
with ThreadPoolExecutor(14) as ex:
    res = list(ex.map(lambda x: (x[0],) + corpus.run_one(x[1][0], x[1][1], props), [("ref", r) for r in refs] + [("seed", s) for s in seeds]))
fired_refs, missed = [], []
for kind, name, fired in res:
    if kind == "ref":
        for c in props:
            rv[name].pop(c, None)
        rv[name].update(fired)
        if fired:
            fired_refs.append((name, fired))
    else:
        vp = "/verif/seeded/%s/verdicts.json" % name
        v = json.load(open(vp))
        for c in props:
            v["fired"].pop(c, None)
        v["fired"].update(fired)
        json.dump(v, open(vp, "w"), indent=1)
        if name[:3] in props and name[:3] not in fired:
            missed.append(name)
json.dump(rv, open("/verif/refactorings/verdicts.json", "w"), indent=1)
d = corpus.rules_digest()
json.dump({"digest": d, "digest_seeded": d, "digest_refactorings": d, "time": time.strftime("%Y-%m-%d %H:%M UTC", time.gmtime()), "updated_for": props}, open("/verif/.cache/corpus_stamp.json", "w"))
print("refactorings fired:", fired_refs)
print("seeds of %s not caught by the targeted check:" % props, missed)
