#!/usr/bin/env python3
"""Run every check against /repo with a seeded patch applied, then undo it.
  seedrun.py <seed dir> [Cxx ...]   -> prints which checks fire and writes <seed dir>/verdicts.json"""
import json, os, subprocess, sys

d = sys.argv[1]
props = sys.argv[2:] or ["C%02d" % i for i in range(1, 21)]
assert subprocess.run(["git", "-C", "/repo", "status", "--porcelain", "--untracked-files=no"], capture_output=True, text=True).stdout.strip() == "", "/repo not clean"
subprocess.run(["git", "-C", "/repo", "apply", os.path.join(d, "patch.diff")], check=True)
out = {}
try:
    for c in props:
        p = subprocess.run(["/verif/check", c], cwd="/verif", capture_output=True, text=True)
        fails = sorted({l.strip()[:260] for l in p.stdout.splitlines() if l.strip().startswith("FAIL")})
        out[c] = {"exit": p.returncode, "fails": fails}
        if p.returncode != 0:
            print(c, "FIRES", len(fails))
            for f in fails[:4]:
                print("   ", f[:230])
finally:
    subprocess.run(["git", "-C", "/repo", "checkout", "--", "."], check=True)
json.dump(out, open(os.path.join(d, "verdicts.json"), "w"), indent=1)
print("fired:", [c for c, v in out.items() if v["exit"] != 0])
