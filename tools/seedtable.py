#!/usr/bin/env python3
"""Markdown table of the seeded breakages under /verif/seeded for DESIGN.md section 7."""
import json, os, glob
rows = []
for d in sorted(glob.glob("/verif/seeded/C*")):
    m = json.load(open(os.path.join(d, "meta.json")))
    v = json.load(open(os.path.join(d, "verdicts.json"))) if os.path.exists(os.path.join(d, "verdicts.json")) else {}
    if "fired" in v:  # tools/corpus.py format
        v = {c: {"exit": 1, "fails": f} for c, f in v["fired"].items()}
    fired = sorted([c for c, x in v.items() if x["exit"] != 0], key=lambda c: (c != os.path.basename(d)[:3], c))
    first = m.get("caught_initially")
    rules = []
    for c in fired:
        for f in v[c]["fails"][:2]:
            parts = f.split(" :: ")
            if len(parts) >= 2:
                rules.append("%s %s `%s`" % (c, parts[0].replace("FAIL ", ""), parts[1][:60]))
    rows.append("| %s | %s | %s | %s | %s |" % (os.path.basename(d), m.get("summary", "")[:160].replace("|", "/"), m.get("needs", "")[:140].replace("|", "/"),
                                            "yes" if first is True else ("no → rule added" if first is False else (str(first) + " → rule added" if first else "?")), "; ".join(rules[:3]) or "—"))
print("| seed | change | needs | caught as first written | fires now (rule, site) |\n|---|---|---|---|---|")
print("\n".join(rows))
