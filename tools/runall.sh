#!/bin/sh
# regenerate quick-tier evidence for every property on /repo's current tree
cd /verif
for c in C01 C02 C03 C04 C05 C06 C07 C08 C09 C10 C11 C12 C13 C14 C15 C16 C17 C18 C19 C20; do
  ./check $c --tier ${1:-quick} > /tmp/runall_$c.txt 2>&1; echo "$c exit=$? $(tail -1 /tmp/runall_$c.txt | cut -c1-100)"
done
