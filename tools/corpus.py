#!/usr/bin/env python3
"""tools/corpus.py seeded|refactorings [-j N] [--only name,...] [--props Cxx,...]

Runs the quick checks against scratch copies of /repo (under a fresh mktemp dir, removed afterwards) with each
patch of the corpus applied, in parallel, without touching /repo or /verif/evidence.

  refactorings : behaviour-preserving edits; every check must stay silent.  -> refactorings/verdicts.json
  seeded       : property-breaking edits; the targeted check must fire.     -> seeded/<id>/verdicts.json
"""
import glob, json, os, shutil, subprocess, sys, tempfile, time
from concurrent.futures import ThreadPoolExecutor

PROPS = ["C%02d" % i for i in range(1, 21)]


def rules_digest():
    """Digest of everything a verdict depends on: the rule modules, the driver and the analysed tree."""
    import hashlib
    h = hashlib.sha256()
    files = []
    for root in ("/verif/rules", "/verif/driver/src"):
        for d, _, fs in os.walk(root):
            if "__pycache__" in d:
                continue
            files += [os.path.join(d, f) for f in fs if f.endswith((".py", ".json", ".rs"))]
    files += ["/verif/known_findings.json", "/verif/driver/Cargo.toml"]
    for f in sorted(files):
        if os.path.exists(f):
            h.update(f.encode())
            h.update(open(f, "rb").read())
    repo = os.environ.get("VERIF_REPO", "/repo")
    for d, ds, fs in os.walk(os.path.join(repo, "src")):
        ds.sort()
        for f in sorted(fs):
            h.update(os.path.join(d, f)[len(repo):].encode())
            h.update(open(os.path.join(d, f), "rb").read())
    for f in ("Cargo.toml", "Cargo.lock"):
        if os.path.exists(os.path.join(repo, f)):
            h.update(open(os.path.join(repo, f), "rb").read())
    return h.hexdigest()[:16]


def run_one(name, patch, props):
    tmp = tempfile.mkdtemp(prefix="qxcorpus-")
    try:
        subprocess.run(["rsync", "-a", "--exclude", "target", "--exclude", ".git", "/repo/", tmp + "/"], check=True)
        r = subprocess.run(["git", "apply", patch], cwd=tmp, capture_output=True, text=True)
        if r.returncode != 0:
            return name, {"error": "does not apply: " + r.stderr.strip()[:200]}
        fired = {}
        # own copy of the dependency cache: parallel runs must not delete each other's member fingerprints
        rc = subprocess.run(["rsync", "-a", "--exclude", "witness-target", "/verif/.cache/", tmp + "/_cache/"]).returncode
        if rc not in (0, 24):  # 24: a file vanished while copying (another check refreshed the cache); cargo rebuilds what is missing
            raise RuntimeError("rsync of the dependency cache failed: %d" % rc)
        env = dict(os.environ, VERIF_REPO=tmp, VERIF_CACHE=tmp + "/_cache", VERIF_EVIDENCE_DIR=os.path.join(tmp, "_ev"), VERIF_NO_SELFTEST="1")
        for c in props:
            p = subprocess.run(["/verif/check", c], cwd="/verif", env=env, capture_output=True, text=True)
            if p.returncode != 0:
                fired[c] = sorted({l.strip()[:400] for l in p.stdout.splitlines() if l.strip().startswith("FAIL")}) or ["exit %d: %s" % (p.returncode, (p.stdout + p.stderr)[-300:])]
        return name, fired
    finally:
        shutil.rmtree(tmp, ignore_errors=True)


def main():
    kind = sys.argv[1]
    args = sys.argv[2:]
    j = 5
    only = None
    props = PROPS
    while args:
        a = args.pop(0)
        if a == "-j":
            j = int(args.pop(0))
        elif a == "--only":
            only = set(args.pop(0).split(","))
        elif a == "--props":
            props = args.pop(0).split(",")
    if kind == "refactorings":
        items = [("/".join(p.split("/")[-2:]), p) for p in sorted(glob.glob("/verif/refactorings/*/refactor_*.diff"))]
    else:
        items = [(os.path.basename(d), os.path.join(d, "patch.diff")) for d in sorted(glob.glob("/verif/seeded/C*")) if os.path.exists(os.path.join(d, "patch.diff"))]
    if only:
        items = [x for x in items if x[0] in only or x[0].split("/")[0] in only]
    res = {}
    with ThreadPoolExecutor(j) as ex:
        for name, fired in ex.map(lambda x: run_one(x[0], x[1], props), items):
            res[name] = fired
            if kind == "refactorings":
                print(name, "silent" if not fired else "FIRED " + json.dumps(fired)[:700], flush=True)
            else:
                tgt = name[:3]
                others = sorted(c for c in fired if c != tgt and c != "error")
                print(name, "CAUGHT" if tgt in fired else ("caught-by-sibling-only" if others else "MISSED"), (fired.get(tgt) or [""])[0][:200], "also:" + ",".join(others) if others else "", flush=True)
                if props == PROPS:
                    json.dump({"targeted": tgt, "fired": fired}, open("/verif/seeded/%s/verdicts.json" % name, "w"), indent=1)
    if kind == "refactorings" and props == PROPS:
        allres = res
        if only and os.path.exists("/verif/refactorings/verdicts.json"):   # partial run: update those entries
            allres = json.load(open("/verif/refactorings/verdicts.json"))
            allres.update(res)
        json.dump(allres, open("/verif/refactorings/verdicts.json", "w"), indent=1)
    if props == PROPS and not only:
        # a complete run of this corpus: remember under which rules and tree it was made (see check: selftest)
        sp = "/verif/.cache/corpus_stamp.json"
        st = json.load(open(sp)) if os.path.exists(sp) else {}
        d = rules_digest()
        if st.get("digest_" + ("seeded" if kind == "refactorings" else "refactorings")) == d:
            st.update({"digest": d, "time": time.strftime("%Y-%m-%d %H:%M UTC", time.gmtime())})
        else:
            st.pop("digest", None)
        st["digest_" + kind] = d
        os.makedirs("/verif/.cache", exist_ok=True)
        json.dump(st, open(sp, "w"))
    bad = [n for n, f in res.items() if (f if kind == "refactorings" else n[:3] not in f)]
    print("done: %d items, %d %s" % (len(res), len(bad), "fired (false alarms)" if kind == "refactorings" else "not caught by the targeted check"))


if __name__ == "__main__":
    main()
